#!/venv/bin/python
"""Development tool (not a registered command): sensitivity of the checks.

Applies one catalogued single-edit mutant of /repo in a scratch copy (outside
/repo and /verif), runs `vcheck <Cxx> --tier quick` against the copy through
VERIF_REPO, reports whether a violation was flagged, removes the copy.

  tools/mutate.py list [Cxx]
  tools/mutate.py run <mutant-id>|<Cxx>|all [--runs N] [--baseline]
"""
import json
import os
import shutil
import subprocess
import sys
import tempfile

HERE = os.path.dirname(os.path.abspath(__file__))
VERIF = os.path.dirname(HERE)
CAT = json.load(open(os.path.join(HERE, "mutants.json")))
PKGS = ["esp_kconfiglib", "kconfgen", "kconfserver", "esp_menuconfig", "kconfcheck", "esp_idf_kconfig", "kconfiglib", "menuconfig"]


def make_copy(m):
    d = tempfile.mkdtemp(prefix="verif-mut-")
    for p in PKGS:
        src = os.path.join("/repo", p)
        if os.path.isdir(src):
            shutil.copytree(src, os.path.join(d, p), ignore=shutil.ignore_patterns("__pycache__"))
    edits = m.get("edits") or [{"file": m["file"], "old": m["old"], "new": m["new"]}]
    for e in edits:
        path = os.path.join(d, e.get("file", m.get("file")))
        s = open(path).read()
        if s.count(e["old"]) != 1:
            shutil.rmtree(d)
            raise SystemExit(f"mutant {m['id']}: pattern occurs {s.count(e['old'])} times in {path}")
        open(path, "w").write(s.replace(e["old"], e["new"]))
    return d


def run(m, runs=None, extra=()):
    d = make_copy(m)
    try:
        for prop in m["props"]:
            cmd = [os.path.join(VERIF, "vcheck"), prop, "--tier", "quick", "--no-selftest"] + (["--runs", str(runs)] if runs else []) + list(extra)
            env = dict(os.environ, VERIF_REPO=d, VERIF_MUTANT="1", VERIF_REPLAY_DIR=os.path.join(d, "_replays"),
                       VERIF_EVIDENCE_DIR=os.path.join(d, "_evidence"))
            p = subprocess.run(cmd, capture_output=True, text=True, env=env, cwd=VERIF)
            sigs = [ln for ln in p.stdout.splitlines() if ln.startswith(("violation:", "VIOLATION", "HARNESS-ERROR"))]
            verdict = {0: "MISSED", 1: "CAUGHT", 2: "HARNESS-ERROR"}.get(p.returncode, str(p.returncode))
            print(f"{m['id']:34s} {prop} {verdict}  " + (sigs[0][:160] if sigs else ""), flush=True)
            if p.returncode == 2 and os.environ.get("MUT_VERBOSE"):
                print(p.stdout[-1500:], p.stderr[-1500:])
    finally:
        shutil.rmtree(d, ignore_errors=True)


def main():
    a = sys.argv[1:]
    if not a or a[0] == "list":
        for m in CAT:
            if len(a) < 2 or a[1] in m["props"]:
                print(m["id"], m["props"], "-", m["desc"])
        return
    what = a[1]
    runs = int(a[a.index("--runs") + 1]) if "--runs" in a else None
    for m in CAT:
        if what == "all" or what == m["id"] or what in m["props"]:
            run(m, runs)


if __name__ == "__main__":
    main()
