#!/venv/bin/python
"""Development tool: seeded changes (written by independent sub-agents) under /verif/seeded/<id>/.

  tools/seeded.py verify <id>          demo passes on the pristine tree, fails with the patch (scratch worktree, removed afterwards)
  tools/seeded.py suite <id>           baseline suite on the patched scratch worktree vs BASELINE.json stable_pass
  tools/seeded.py run <id>|all [Cxx..] run the checks (default: the property named in meta.json) against a patched scratch copy
"""
import json
import os
import shutil
import subprocess
import sys
import tempfile
import xml.etree.ElementTree as ET

HERE = os.path.dirname(os.path.abspath(__file__))
VERIF = os.path.dirname(HERE)
SEEDED = os.path.join(VERIF, "seeded")
PKGS = ["esp_kconfiglib", "kconfgen", "kconfserver", "esp_menuconfig", "kconfcheck", "esp_idf_kconfig", "kconfiglib", "menuconfig"]


def worktree():
    d = tempfile.mkdtemp(prefix="verif-seeded-wt-")
    os.rmdir(d)
    subprocess.run(["git", "-C", "/repo", "worktree", "add", "-q", "--detach", d, "HEAD"], check=True)
    return d


def drop(d):
    subprocess.run(["git", "-C", "/repo", "worktree", "remove", "--force", d], check=False)
    shutil.rmtree(d, ignore_errors=True)


def verify(sid):
    sd = os.path.join(SEEDED, sid)
    d = worktree()
    try:
        demo = os.path.join(sd, "demo.py")
        r0 = subprocess.run(["/venv/bin/python", demo], cwd=d, capture_output=True, text=True, timeout=600)
        a = subprocess.run(["git", "-C", d, "apply", os.path.join(sd, "patch.diff")], capture_output=True, text=True)
        if a.returncode:
            print("patch does not apply:", a.stderr)
            return 2
        r1 = subprocess.run(["/venv/bin/python", demo], cwd=d, capture_output=True, text=True, timeout=600)
        print(f"{sid}: demo pristine rc={r0.returncode}  patched rc={r1.returncode}")
        if r1.returncode:
            print("   patched output:", (r1.stdout + r1.stderr).strip()[-400:])
        return 0 if (r0.returncode == 0 and r1.returncode != 0) else 1
    finally:
        drop(d)


def suite(sid):
    sd = os.path.join(SEEDED, sid)
    d = worktree()
    try:
        subprocess.run(["git", "-C", d, "apply", os.path.join(sd, "patch.diff")], check=True)
        out = os.path.join(d, "_junit.xml")
        subprocess.run(f"cd {d} && /venv/bin/python -m pytest -q -p no:cacheprovider --timeout=900 --continue-on-collection-errors --junitxml={out} "
                       "> /dev/null 2>&1", shell=True)
        base = json.load(open("/root/.vp/BASELINE.json"))
        stable = set(base["stable_pass"])
        passed = set()
        for tc in ET.parse(out).getroot().iter("testcase"):
            if not any(ch.tag in ("failure", "error", "skipped") for ch in tc):
                passed.add(f"{tc.get('classname')}::{tc.get('name')}")
        missing = sorted(stable - passed)
        print(f"{sid}: stable_pass={len(stable)} passed_with_patch={len(passed)} stable_now_failing={len(missing)}")
        for m in missing[:10]:
            print("   FAILING:", m)
        return 1 if missing else 0
    finally:
        drop(d)


def run(sid, checks, record=False):
    results = []
    sd = os.path.join(SEEDED, sid)
    meta = json.load(open(os.path.join(sd, "meta.json")))
    checks = checks or [meta["property"]]
    d = tempfile.mkdtemp(prefix="verif-seeded-")
    try:
        for p in PKGS:
            src = os.path.join("/repo", p)
            if os.path.isdir(src):
                shutil.copytree(src, os.path.join(d, p), ignore=shutil.ignore_patterns("__pycache__"))
        a = subprocess.run(["patch", "-p1", "-s", "-d", d, "-i", os.path.join(sd, "patch.diff")], capture_output=True, text=True)
        if a.returncode:
            print(sid, "patch failed:", a.stdout, a.stderr)
            return 2
        env = dict(os.environ, VERIF_REPO=d, VERIF_REPLAY_DIR=os.path.join(d, "_replays"), VERIF_EVIDENCE_DIR=os.path.join(d, "_evidence"))
        for c in checks:
            for tier in ("quick",):
                p = subprocess.run([os.path.join(VERIF, "vcheck"), c, "--tier", tier, "--no-selftest"], capture_output=True, text=True, env=env, cwd=VERIF)
                sig = [ln for ln in p.stdout.splitlines() if ln.startswith(("violation:", "HARNESS-ERROR"))]
                verdict = {0: "MISSED", 1: "CAUGHT", 2: "HARNESS-ERROR"}.get(p.returncode, str(p.returncode))
                tot = ""
                try:
                    ev = json.load(open(os.path.join(d, "_evidence", c + ".json")))
                    seen = ev["coverage"].get("signatures_seen", {})
                    known = set(ev["coverage"].get("known_findings_matched", []))
                    tot = "runs=%d hits=%d/%s  " % (ev["coverage"]["evaluations"], sum(v for k, v in seen.items() if k not in known),
                                                    ",".join("%s:%d" % (k.split("/", 1)[1][:40], v) for k, v in seen.items() if k not in known)[:160])
                except Exception:
                    pass
                print(f"{sid:28s} {c} {tier} {verdict}  {tot}" + (sig[0][:120] if sig else ""), flush=True)
                results.append({"check": c, "tier": tier, "verdict": verdict, "first_line": (sig[0][:300] if sig else "")})
    finally:
        shutil.rmtree(d, ignore_errors=True)
    if record:
        meta["verification"] = {"applied_to": "scratch copy of /repo (HEAD) via patch -p1; checks run with VERIF_REPO pointing at it",
                                "demo": "tools/seeded.py verify: demo.py exits 0 on a pristine scratch worktree and non-zero with the patch applied",
                                "suite": "tools/seeded.py suite: baseline stable_pass set still passes with the patch applied",
                                "checks": results}
        json.dump(meta, open(os.path.join(sd, "meta.json"), "w"), indent=1)
    return 0


def main():
    cmd, sid = sys.argv[1], sys.argv[2]
    ids = sorted(os.listdir(SEEDED)) if sid == "all" else [sid]
    rc = 0
    for s in ids:
        if cmd == "verify":
            rc |= verify(s)
        elif cmd == "suite":
            rc |= suite(s)
        elif cmd == "record":
            rc |= run(s, sys.argv[3:], record=True)
        else:
            rc |= run(s, sys.argv[3:])
    sys.exit(rc)


main()
