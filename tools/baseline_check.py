#!/venv/bin/python
"""Development tool: run the repository's baseline suite (guard off) and compare
the set of passing tests with /root/.vp/BASELINE.json's stable_pass list."""
import json
import subprocess
import sys
import xml.etree.ElementTree as ET

out = "/tmp/verif-baseline.junit.xml"
subprocess.run("cd /repo && /venv/bin/python -m pytest -ra -q -p no:cacheprovider --timeout=900 --continue-on-collection-errors "
               f"--junitxml={out} > /tmp/verif-baseline.log 2>&1", shell=True)
base = json.load(open("/root/.vp/BASELINE.json"))
stable = set(base["stable_pass"])
passed = set()
for tc in ET.parse(out).getroot().iter("testcase"):
    if not any(ch.tag in ("failure", "error", "skipped") for ch in tc):
        passed.add(f"{tc.get('classname')}::{tc.get('name')}")
missing = sorted(stable - passed)
print(f"stable_pass={len(stable)} passed_now={len(passed)} stable_now_failing={len(missing)}")
for m in missing[:20]:
    print("  FAILING:", m)
sys.exit(1 if missing else 0)
