#!/venv/bin/python
"""Development tool: run every claimed check under several base seeds and list the
violation signatures / harness errors seen (replays and evidence go to a scratch dir).

  tools/sweep.py <first_seed> <last_seed> [tier] [checks...]
"""
import os
import subprocess
import sys
import tempfile

HERE = os.path.dirname(os.path.abspath(__file__))
VERIF = os.path.dirname(HERE)
ALL = ["C02", "C03", "C05", "C08", "C10", "C12", "C13", "C14", "C15", "C16", "C17", "C19"]


def main():
    a, b = int(sys.argv[1]), int(sys.argv[2])
    tier = sys.argv[3] if len(sys.argv) > 3 else "quick"
    checks = sys.argv[4:] or ALL
    out = tempfile.mkdtemp(prefix="verif-sweep-")
    env = dict(os.environ, VERIF_REPLAY_DIR=os.path.join(out, "replays"), VERIF_EVIDENCE_DIR=os.path.join(out, "evidence"))
    bad = 0
    for seed in range(a, b + 1):
        for c in checks:
            p = subprocess.run([os.path.join(VERIF, "vcheck"), c, "--tier", tier, "--seed", str(seed), "--no-selftest"], capture_output=True, text=True,
                               env=env, cwd=VERIF)
            lines = [ln[:260] for ln in p.stdout.splitlines() if ln.startswith(("violation:", "HARNESS-ERROR", "(further"))]
            last = p.stdout.strip().splitlines()[-1][:160] if p.stdout.strip() else ""
            print(f"seed={seed} {c} rc={p.returncode} {last}", flush=True)
            for ln in lines:
                print("    " + ln, flush=True)
            if p.returncode:
                bad += 1
                if p.returncode == 2:
                    print(p.stdout[-1500:], p.stderr[-1500:], flush=True)
    print("replays kept in", out, "failing runs:", bad)


main()
