#!/usr/bin/env python3-vt
"""Development tool: validate MANIFEST.json and every evidence file against the schemas in /root/.vp."""
import json
import os
import sys

import jsonschema

V = os.path.dirname(os.path.dirname(os.path.abspath(__file__)))
man = json.load(open(os.path.join(V, "MANIFEST.json")))
jsonschema.validate(man, json.load(open("/root/.vp/MANIFEST.schema.json")))
es = json.load(open("/root/.vp/EVIDENCE.schema.json"))
props = [json.loads(l)["id"] for l in open(os.path.join(V, "properties.jsonl"))]
claimed = [c["property_id"] for c in man["checks"]]
na = [n["property_id"] for n in man.get("not_applicable", [])]
assert sorted(claimed + na) == sorted(props), (sorted(claimed + na), sorted(props))
bad = 0
for c in man["checks"]:
    p = c["evidence_file"]
    try:
        ev = json.load(open(p))
        jsonschema.validate(ev, es)
        assert ev["property_id"] == c["property_id"] and ev["level"] == c["level_claimed"]["category"]
        print(c["property_id"], "ok", ev["tier"], "seed", ev["seed"], "evaluations", ev["coverage"]["evaluations"], "distinct", ev["coverage"]["distinct_nontrivial"],
              "violations", ev.get("violations"), "wall", ev["wall_s"])
    except Exception as e:
        bad += 1
        print(c["property_id"], "INVALID", type(e).__name__, str(e)[:200])
print("claimed", len(claimed), "not_applicable", len(na), "invalid", bad)
sys.exit(1 if bad else 0)
