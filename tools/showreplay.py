#!/venv/bin/python
"""Development tool: print a replay file readably."""
import json, sys, os
sys.path.insert(0, os.path.dirname(os.path.dirname(os.path.abspath(__file__))))
from sim import kgen
for p in sys.argv[1:]:
    r = json.load(open(p))
    sc = r["scenario"]
    print("=" * 30, p)
    print("signature:", r["signature"])
    print("message:", r["message"][:600])
    for key in ("prog", "prog2"):
        if sc.get(key):
            print("--- %s\n%s" % (key, kgen.render(sc[key])))
    for k, v in sc.items():
        if k not in ("prog", "prog2"):
            print("%s: %s" % (k, json.dumps(v)))
