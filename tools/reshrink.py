#!/venv/bin/python
"""Development tool: shrink a replay file further (bigger budget) and write <file>.min.json."""
import json, os, sys, tempfile
os.environ.setdefault("PYTHONHASHSEED", "0")
sys.path.insert(0, os.path.dirname(os.path.dirname(os.path.abspath(__file__))))
from sim import runner
rec = json.load(open(sys.argv[1]))
check = runner.load_check(rec["property"])
wd = tempfile.mkdtemp(prefix="verif-reshrink-")
small, tries = runner.shrink(check, rec["scenario"], rec["signature"], wd, cap=int(sys.argv[2]) if len(sys.argv) > 2 else 4000, wall=1500)
rec["scenario"] = small
out = sys.argv[1].replace(".json", ".min.json")
json.dump(rec, open(out, "w"), indent=1, sort_keys=True, default=repr)
print("tries", tries, "->", out)
