#!/venv/bin/python
"""Regenerates MANIFEST.json from the check modules (development tool)."""
import json
import os
import sys

HERE = os.path.dirname(os.path.abspath(__file__))
VERIF = os.path.dirname(HERE)
sys.path.insert(0, VERIF)
os.environ.setdefault("PYTHONHASHSEED", "0")

NA = {
    "C01": "pure function of (tree, final user assignment); deciding it needs an independent Kconfig evaluator, i.e. differential testing, no schedule/fault/restart in the statement (DESIGN.md 5)",
    "C04": "pure function of the source text: two parsers, one comparison; no schedule, fault or history (DESIGN.md 5)",
    "C06": "per-configuration predicate on the same pure evaluation as C01; how the assignment arrived does not enter the statement (DESIGN.md 5)",
    "C07": "several pure renderings of one configuration compared with each other; no schedule, fault or history (DESIGN.md 5)",
    "C09": "function of the program (and, for totality, of the assignment); cycle detection has no interleaving or fault dimension (DESIGN.md 5)",
    "C11": "function of (tree, rename files, one sdkconfig text); 'any order' is the order of lines in one input (DESIGN.md 5)",
    "C18": "iteration of a text->text function; the .new file and os.replace are plumbing with no fault or schedule in the statement (DESIGN.md 5)",
    "C20": "function of (tree, target) with a semantic equivalence over assignments as oracle; nothing for a simulator to schedule or fail (DESIGN.md 5)",
}

CLAIMED = ["C02", "C03", "C05", "C08", "C10", "C12", "C13", "C14", "C15", "C16", "C17", "C19"]


def main():
    checks = []
    na = [{"property_id": k, "reason": v} for k, v in sorted(NA.items())]
    from sim import runner

    for cid in CLAIMED:
        try:
            m = runner.load_check(cid)
        except Exception as e:  # not built yet
            na.append({"property_id": cid, "reason": f"check not built yet in this revision ({type(e).__name__}); simulation design in DESIGN.md"})
            continue
        checks.append({
            "property_id": cid,
            "quick_cmd": f"./vcheck {cid} --tier quick",
            "thorough_cmd": f"./vcheck {cid} --tier thorough",
            "evidence_file": f"/verif/evidence/{cid}.json",
            "replay_cmd_template": "./vcheck --replay {path}",
            "engine": "detsim",
            "level_claimed": {"category": m.LEVEL, "text": m.LEVEL_TEXT, "design_ref": m.DESIGN_REF},
            "level_note": "; ".join(m.ASSUMPTIONS),
            "technique": m.TECHNIQUE,
        })
    man = {
        "version": 1,
        "setup_cmd": "/venv/bin/python -c \"import sys; sys.path.insert(0, '/repo'); import esp_kconfiglib, kconfgen, kconfserver, esp_menuconfig, kconfcheck\"",
        "hooks": {
            "guard": "ESP_IDF_KCONFIG_VERIF",
            "enable": "no source hook exists: every seam is a module-global rebind installed by the harness (sim/simfs.py, sim/simproc.py); checks import /repo's working tree directly",
            "baseline_off_cmd": "cd /repo && /venv/bin/python -m pytest -ra -q -p no:cacheprovider --timeout=900 --continue-on-collection-errors",
            "source_commits": [],
            "add_only": True,
        },
        "engines": [{"name": "detsim", "path": "/verif/sim", "serves_properties": [c["property_id"] for c in checks],
                     "kind_free_text": "deterministic simulation with fault injection: seeded scenario generator, interposed file system with journal/logical clock/crash+torn-write injection, seeded set-iteration order, in-process config-server and menuconfig drivers, delta-debugging shrinker, self-contained JSON replay files"}],
        "checks": checks,
        "not_applicable": sorted(na, key=lambda x: x["property_id"]),
        "notes": "Exit 0: property held on everything explored (KNOWN-FINDING lines possible, see known_findings.txt); exit 1: VIOLATION line with replay file; exit 2: HARNESS-ERROR (never evidence). All commands honour VERIF_SEED.",
    }
    with open(os.path.join(VERIF, "MANIFEST.json"), "w") as f:
        json.dump(man, f, indent=1)
    print("claimed", [c["property_id"] for c in checks])


main()
