"""Seed derivation: one integer decides everything (DESIGN.md 2.1).

Every run i of check C under base seed S owns random.Random(sha256("S/C/i")).
Nothing else in the simulator may draw randomness or read a clock.
"""
import hashlib
import random


def derive(seed, check, index, stream=""):
    h = hashlib.sha256(f"{seed}/{check}/{index}/{stream}".encode()).digest()
    return random.Random(int.from_bytes(h[:16], "big"))


def digest(obj):
    """Stable digest of a JSON-like object (used for event logs / distinctness)."""
    import json

    return hashlib.sha256(json.dumps(obj, sort_keys=True, default=repr).encode()).hexdigest()[:16]
