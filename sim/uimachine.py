"""uimachine - seeded UI-level histories for the menuconfig simulation (C16, C17).

A history is a list of actions {"key": <key name>, "tokens": [answer tokens]};
tokens answer whatever dialogs the action opens (sim/simui.py).  A quit that
ends the session is followed by a *new* session on the same disk (restart).
"""
import builtins
import os

from . import kgen, ops, simproc, simui

ENV = {"IDF_TARGET": "esp32", "IDF_VERSION": "v9.9", "KCONFIG_REPORT_VERBOSITY": "quiet"}

NAV = ["down", "down", "down", "up", "home", "end"]
WEIGHTS = {"nav": 30, "enter": 12, "space": 12, "left": 5, "escape": 2, "y": 4, "n": 4, "r": 6, "a": 2, "c": 1, "f": 1, "s": 6, "o": 4, "d": 2,
           "slash": 5, "question": 2, "q": 4}


def gen_token(r, prog, tab, names, hand_n, tool_n):
    t = {"k": r.randrange(6), "cancel": r.random() < 0.15, "labels": r.random() < 0.4}
    t["texts"] = {ty: r.choice(kgen.SANE[ty] if r.random() < 0.7 else kgen.VALS[ty]) for ty in (kgen.INT, kgen.HEX, kgen.FLOAT, kgen.STRING)}
    if r.random() < 0.1:
        t["texts"][kgen.HEX] = r.choice(["1F", " 3f", "40", "zz"])  # without prefix / leading space
    k = r.random()
    t["file"] = (["main"] if k < 0.35 else ["tool", r.randrange(tool_n)] if (k < 0.6 and tool_n) else ["hand", r.randrange(hand_n)] if (k < 0.8 and hand_n)
                 else ["missing"] if k < 0.9 else ["other"])
    q = r.random()
    nm = r.choice(names).lower() if names else "s"
    t["query"] = (nm if q < 0.4 else nm[: r.randint(1, 3)] if q < 0.6 else "config_" + nm[:2] if q < 0.7 else r.choice(["prompt", "choice", "m", "note", "(", "[a", " ", "s.*_", "zz"]))
    return t


def gen_actions(r, prog, n, hand_n=0, tool_n=0, weights=None):
    tab = kgen.sym_table(prog)
    names = list(tab)
    w = dict(WEIGHTS)
    if weights:
        w.update(weights)
    kinds = [k for k, v in w.items() if k != "macro" for _ in range(v)]
    acts = []

    def act(key):
        acts.append({"key": key, "tokens": [gen_token(r, prog, tab, names, hand_n, tool_n) for _ in range(r.choice([1, 2, 3]))]})

    macro_p = w.get("macro", 6) / 100.0
    while len(acts) < n:
        if r.random() < macro_p:
            # excursions that put the cursor into places ordinary navigation does not reach:
            # rows only shown in show-all mode, menus reached by jump-to, deep rows of a sub-menu
            m = r.choice(["showall", "showall", "jump", "deep"])
            if m == "showall":
                act("a")
                if r.random() < 0.6:
                    act("goto:hidden:%d" % r.randrange(4))
                else:
                    for _ in range(r.randint(0, 4)):
                        act(r.choice(["down", "down", "up", "end"]))
                act(r.choice(["enter", "enter", "space"]))
                if r.random() < 0.5:
                    act(r.choice(["goto:menu:%d" % r.randrange(4), "goto:last:0"]))
                for _ in range(r.randint(0, 4)):
                    act(r.choice(["down", "down", "end", "enter", "space"]))
                if r.random() < 0.8:
                    act("a")
                act(r.choice(["left", "left", "escape", "y", "n", "r"]))
            elif m == "jump":
                act("slash")
                for _ in range(r.randint(0, 4)):
                    act(r.choice(["down", "down", "end", "enter"]))
                act(r.choice(["left", "left", "escape", "space", "y", "r", "a"]))
                act(r.choice(["left", "y", "n", "down"]))
            else:
                act(r.choice(["goto:menu:%d" % r.randrange(4), "enter"]))
                act("enter")
                for _ in range(r.randint(1, 5)):
                    act(r.choice(["down", "end"]))
                act(r.choice(["space", "y", "n", "r", "enter"]))
                act("left")
            continue
        k = r.choice(kinds)
        act(r.choice(NAV) if k == "nav" else k)
    return acts[: n + 12]


def write_tool_file(path, kpath, parser, policy, rn, hist, deprecated=False):
    """A file written exactly as a menuconfig save would write it (idf header, no deprecated block unless asked)."""
    from esp_menuconfig import idf_headers

    k = simproc.new_kconfig(kpath, parser=parser, policy=policy, renames=[rn] if rn else None)
    node = ops.KNode.__new__(ops.KNode)
    node.k, node.sb, node.rn, node.parser, node.policy, node.kpath = k, os.path.dirname(path), rn, parser, policy, kpath
    ops.run_history(node, hist, (), None, None)
    with simproc.env(**ENV), simproc.quiet():
        node.k.write_config(path, header=idf_headers.idf_sdkconfig_header(), write_deprecated=deprecated, save_old=False)


class Machine:
    """Sandbox + sessions for one scenario.  sc keys: prog, prog_old (optional), parser, policy, renames, hand, tool_hist,
    initial (absent|tool-same|tool-old|tool-deprecated|hand), actions."""

    def __init__(self, sc, ctx):
        self.sc, self.ctx = sc, ctx
        sb = self.sb = ctx.fresh_dir()
        self.kpath = os.path.join(sb, "Kconfig")
        with builtins.open(self.kpath, "w") as f:
            f.write(kgen.render(sc["prog"]))
        self.rn = None
        if sc.get("renames"):
            self.rn = os.path.join(sb, "sdkconfig.rename")
            with builtins.open(self.rn, "w") as f:
                f.write(sc["renames"])
        for i, h in enumerate(sc.get("hand", [])):
            with builtins.open(os.path.join(sb, "hand_%d" % i), "w") as f:
                f.write(h)
        for j, hist in enumerate(sc.get("tool_hist", [])):
            try:
                write_tool_file(os.path.join(sb, "tool_%d" % j), self.kpath, sc["parser"], sc.get("policy"), self.rn, hist)
            except Exception:
                pass
        self.conf = os.path.join(sb, "sdkconfig")
        init = sc.get("initial", "absent")
        self.initial_is_tool_same = False
        try:
            if init == "tool-same" and sc.get("tool_hist"):
                write_tool_file(self.conf, self.kpath, sc["parser"], sc.get("policy"), self.rn, sc["tool_hist"][0])
                self.initial_is_tool_same = True
            elif init == "tool-extra" and sc.get("tool_hist"):
                # written by the tool for this program, then an entry for an option the tree does not (or no longer) define
                write_tool_file(self.conf, self.kpath, sc["parser"], sc.get("policy"), self.rn, sc["tool_hist"][0])
                with builtins.open(self.conf, "a") as f:
                    f.write(sc.get("extra_lines") or "CONFIG_GONE_OPTION=y\n")
            elif init == "tool-deprecated" and sc.get("tool_hist") and self.rn:
                write_tool_file(self.conf, self.kpath, sc["parser"], sc.get("policy"), self.rn, sc["tool_hist"][0], deprecated=True)
            elif init == "tool-old" and sc.get("prog_old"):
                kold = os.path.join(sb, "Kconfig.old")
                with builtins.open(kold, "w") as f:
                    f.write(kgen.render(sc["prog_old"]))
                write_tool_file(self.conf, kold, 1, sc.get("policy"), None, (sc.get("tool_hist") or [[]])[0])
            elif init == "hand" and sc.get("hand"):
                with builtins.open(self.conf, "w") as f:
                    f.write(sc["hand"][0])
        except Exception:
            pass
        self.session = None
        self.sessions = 0
        self.disk_tool_written = init in ("tool-same", "tool-deprecated", "tool-old") and os.path.exists(self.conf)
        self.disk_origin = init if os.path.exists(self.conf) else "absent"

    def resolve_file(self, spec, for_save_min=False):
        if not spec:
            return None
        k = spec[0]
        if for_save_min:
            # [D] never targets the main sdkconfig or an input file of the scenario (it is a different file format)
            return os.path.join(self.sb, "defconfig_%s" % "_".join(str(x) for x in spec))
        if k == "main":
            return self.conf
        if k in ("tool", "hand"):
            return os.path.join(self.sb, "%s_%d" % (k, spec[1]))
        if k == "missing":
            return os.path.join(self.sb, "nope", "missing")
        return os.path.join(self.sb, "other_file")

    def start(self):
        sc = self.sc
        k = simproc.new_kconfig(self.kpath, parser=sc["parser"], policy=sc.get("policy"), renames=[self.rn] if self.rn else None)
        self.session = simui.Session(k, self.conf, ENV)
        self.sessions += 1
        return self.session

    def stop(self):
        if self.session is not None:
            self.session.close()
            self.session = None

    def disk(self):
        try:
            with builtins.open(self.conf, "rb") as f:
                return f.read()
        except OSError:
            return None


def run(machine, actions, monitor, ctx):
    """Drive the sessions.  monitor: on_start(sess, first), before(sess, act) -> pre, after(i, act, log, pre, sess),
    raised(i, act, exc, sess) -> bool (True: stop the run)."""
    try:
        sess = machine.start()
    except Exception as e:
        monitor.raised(-1, {"key": "<start>"}, e, None)
        return 0
    if not sess.started:
        machine.stop()
        return 0
    monitor.on_start(sess, True)
    done = 0
    try:
        for i, act in enumerate(actions):
            pre = monitor.before(sess, act)
            log = []
            try:
                with simproc.quiet():
                    sess.press(act["key"])
                    sess.answer(list(act["tokens"]), machine.resolve_file, log)
            except Exception as e:  # noqa: B902
                if monitor.raised(i, act, e, sess):
                    break
                continue
            ctx.events += 1
            done += 1
            monitor.after(i, act, log, pre, sess)
            if sess.app.exited is not None:
                ctx.counters["probe:session-ended"] += 1
                machine.stop()
                try:
                    sess = machine.start()
                except Exception as e:
                    monitor.raised(i, {"key": "<restart>"}, e, None)
                    return done
                if not sess.started:
                    break
                monitor.on_start(sess, False)
    finally:
        machine.stop()
    return done
