"""C15 - the config server answers every request and survives bad ones (DESIGN.md 3, C15).

Same in-process server as C14, fed with lines that are JSON objects using the
documented keys with arbitrary JSON values, non-JSON lines, unknown/invisible
targets, unreadable/unwritable files, mixed with valid requests.
Oracles: one JSON line per input line; survival until EOF; whole-request
offences are reported in `error`; a twin server that receives the last request
without its offending parts ends in the same configuration.
"""
import builtins
import copy
import errno
import json
import os

from .. import kgen, ops, simfs, simpipe, simproc, srvgen
from ..rng import digest
from . import c14, common

ID = "C15"
LEVEL = "exploration"
BATCH = 25
PROBES_EXPECTED = ['probe:twin-compared', 'probe:stderr-nonempty', 'err@open_r/EACCES', 'err@open_w/EACCES', 'err@write/ENOSPC']
TIERS = {"quick": {"runs": 6000, "wall": 50}, "thorough": {"runs": 250000, "wall": 840}}
RULE = ("each run draws a program, protocol version, knobs and a session of 1-12 lines: valid requests mixed with JSON objects whose documented "
        "keys carry arbitrary JSON (wrong types, extreme numbers, empty strings, nested containers, text outside latin-1, lone surrogates), non-JSON lines, byte lines that are not valid UTF-8, unknown/invisible options, the deployment's pipe configuration (stdin error handler, stdout encoding), "
        "unknown menu ids, unreadable/unwritable/non-UTF-8/directory files; the last line is additionally replayed on a twin server without its "
        "offending parts; non-trivial = >=1 offending line and >=1 valid state-changing request; distinct = digest of (program shape, lines, replies)")
REAL = c14.REAL
STUB = c14.STUB + ["unreadable/unwritable files: real paths in the sandbox (missing directory, a directory, invalid UTF-8 bytes) and OSErrors injected by SimFS "
                   "(EACCES on open for read / for write, ENOSPC on the first write)"]
ASSUMPTIONS = ["'offending' is decided by a fixed conservative table (unknown option/menu id; promptless option; JSON value of a kind the documentation does not list "
               "for the option's type; non-finite float; negative hex; out-of-range number only as the sole key of the request; unreadable load / unwritable save target); "
               "anything else - in particular a currently invisible option - is sent to both twins unchanged",
               "stderr is free-form; only stdout is judged",
               "the session ends after the twin comparison, so divergence of hidden state is never carried forward"]
TECHNIQUE = "deterministic simulation: in-process config server fed seeded malformed/ill-typed/valid request lines and unreadable files; per-line reply accounting, survival, and a lock-step twin server that receives the last request minus its offending parts"
DESIGN_REF = "DESIGN.md section 3, C15 (and 2.5 SimPipe)"
LEVEL_TEXT = "Seeded exploration of hostile request sessions over generated programs; sampling, not enumeration."

BAD_VERSIONS = ["3", 3.5, None, [], {}, 0, 4, -1, 777, True, "absent", 2 ** 80, 1e308]
NONJSON = ["", "{", "{\"version\": 3", "hello", "[1,2", "\x00\x01", "{'version': 3}", "nul", "{\"version\":3,}", "  ", "{\"version\": 3} trailing"]
# lines that are not even text: invalid UTF-8, a multi-byte character cut by the end of the line
NONTEXT = [b"\xff\xfe garbage", b"\x80", b'{"version": 3, \xc3}', b'{"version":3,"set":{"X":"\xc3', b"\xed\xa0\xbd"]
PIPES = [["strict", "utf-8"], ["strict", "utf-8"], ["strict", "utf-8"], ["surrogateescape", "utf-8"], ["strict", "ascii"], ["strict", "latin-1"],
         ["strict", "cp1252"]]
JSON_NONOBJECT = ["[]", "3", "\"x\"", "null", "true", "[{\"version\": 3}]"]
ANY = [None, True, False, 0, -1, 2 ** 80, -2 ** 80, 1e308, -0.0, 2.5, "", "x", [], [1, [2]], {}, {"a": {"b": 1}}]


def generate(r, tier):
    big = tier == "thorough"
    prog = kgen.gen_program(r, hi=16 if big else 10)
    sc = {"prog": prog, "parser": kgen.pick_parser(r, prog, 0.04), "hash_salt": r.getrandbits(32), "policy": r.choice([None, None, "kconfig"]),
          "version": r.choice([1, 2, 3, 3, 3])}
    sc["renames"] = None
    sc["hand"] = [kgen.handwritten(r, prog, sane=False) for _ in range(r.randint(0, 2))]
    sc["tool_prefix"] = [ops.gen_history(r, prog, r.randint(0, 5), weights={"read": 0, "save": 0, "load": 0, "restart": 0, "load_hand": 0}, sane=0.9)]
    sc["initial"] = r.choice(["empty", "tool", "hand"])
    sc["prog_alt"] = kgen.evolve(r, prog) if r.random() < 0.4 else None  # a file written under another version of the tree
    if sc["prog_alt"] and r.random() < 0.4:
        sc["initial"] = "alt"
    tab = kgen.sym_table(prog)
    names = list(tab)
    n = r.randint(1, 12)
    good = srvgen.gen_requests(r, prog, n, sc["version"], hand_n=len(sc["hand"]), tool_n=1, sane=0.6, alt=bool(sc["prog_alt"]))
    lines = []
    for d in good[:n]:
        k = r.random()
        if k < 0.45:
            lines.append(d)
        elif k < 0.55:
            lines.append({"raw": r.choice(NONJSON)})
        elif k < 0.60:
            lines.append({"rawhex": r.choice(NONTEXT).hex()} if r.random() < 0.5 else {"raw": r.choice(NONJSON)})
        elif k < 0.70:
            d = dict(d)
            d["version"] = r.choice(BAD_VERSIONS)
            lines.append(d)
        elif k < 0.80:
            # documented key, arbitrary JSON value
            key = r.choice(["set", "reset", "load", "save"])
            d = dict(d)
            v = r.choice(ANY)
            d[key] = ["literal", v] if key in ("load", "save") else v
            lines.append(d)
        elif k < 0.90 and names:
            nm = r.choice(names)
            lines.append({"set": {nm: r.choice(ANY)}})
        else:
            lines.append({"reset": r.choice([["all", "X"], [r.choice(ANY)], r.choice(ANY), ["-"], [names[0] if names else "A", {"menu": 0}]])})
    # file faults
    for d in lines:
        if "raw" in d or "rawhex" in d:
            continue
        for key in ("load", "save"):
            if key in d and r.random() < 0.3:
                d[key] = r.choice([["missing"], ["dir"], ["hand", 99]] + ([["eacces-r"]] if key == "load" else [["eacces-w"], ["enospc"]]))
    sc["lines"] = lines
    sc["bad_file"] = r.random() < 0.3  # hand_99: invalid UTF-8
    sc["pipes"] = r.choice(PIPES)  # (stdin error handler, stdout encoding) of the deployment
    # diagnostics are only printed at all above the "quiet" report verbosity: the deployment's default is "default"
    sc["verbosity"] = r.choice(["default", "default", "default", "verbose", "quiet"])
    return sc


summarize = c14.summarize


def _offending(k, desc, version, sb):
    """(whole_request_offending, cleaned descriptor or None) for the LAST line.  Conservative table (DESIGN.md C15)."""
    if "rawhex" in desc:
        return True, None  # not text, hence not JSON (every generated byte line stays non-JSON under any error handler)
    if "raw" in desc:
        try:
            obj = json.loads(desc["raw"])
        except ValueError:
            return True, None
        if not isinstance(obj, dict):
            return True, None
        return None, None  # raw JSON objects are not classified
    v = desc.get("version", version)
    if v == "absent" or isinstance(v, bool) or not isinstance(v, int) or v < 1 or v > 3:
        return True, None
    clean = {}
    changed = False
    core = simproc.core
    if "load" in desc:
        spec = desc["load"]
        if spec is None or (isinstance(spec, list) and spec and spec[0] in ("slot", "hand", "tool", "alt") and os.path.isfile(srvgen.resolve_path(spec, sb) or "")
                            and not (spec[0] == "hand" and spec[1] == 99)):
            clean["load"] = spec
        elif isinstance(spec, list) and spec and spec[0] == "dir" and not os.path.isdir(os.path.join(sb, "adir")):
            return None, None  # an earlier `save` to the directory replaced it by a file: readable, not classified
        elif isinstance(spec, list) and spec and spec[0] in ("missing", "dir", "eacces-r"):
            changed = True  # unreadable: offending, dropped
        else:
            return None, None  # not classified (literal of a wrong type, invalid utf-8 ...)
    if "set" in desc:
        s = desc["set"]
        if not isinstance(s, dict):
            changed = True
        else:
            keep = {}
            sole = len(s) == 1 and len(desc) == 1
            for name, val in s.items():
                sym = k.syms.get(name)
                if sym is None or not sym.nodes:
                    changed = True
                    continue
                if all(n.prompt is None for n in sym.nodes):
                    changed = True
                    continue
                t = sym.orig_type
                bad = False
                if t == core.BOOL:
                    bad = not isinstance(val, bool)
                elif t == core.INT:
                    if isinstance(val, str) and val.strip().lstrip("+-").isdigit():
                        return None, None  # numeric string for an int: accepted leniently, not classified
                    bad = isinstance(val, bool) or not isinstance(val, (int, float)) or (isinstance(val, float) and (val != val or val in (float("inf"), float("-inf")) or val != int(val)))
                    if isinstance(val, float) and not bad:
                        return None, None  # 3.0 for an int: not classified
                elif t == core.HEX:
                    if isinstance(val, bool):
                        bad = True
                    elif isinstance(val, int):
                        bad = val < 0
                    elif isinstance(val, str):
                        try:
                            bad = int(val, 16) < 0
                        except ValueError:
                            bad = True
                    else:
                        bad = True
                elif t == core.FLOAT:
                    if isinstance(val, str):
                        return None, None  # the server documents accepting a string representation
                    bad = isinstance(val, bool) or not isinstance(val, (int, float)) or val != val or val in (float("inf"), float("-inf"))
                elif t == core.STRING:
                    if isinstance(val, (int, float)) and not isinstance(val, bool):
                        return None, None  # a number for a string option is stringified leniently, not classified
                    bad = not isinstance(val, str)
                if not bad and sole and t in (core.INT, core.HEX, core.FLOAT) and isinstance(val, (int, float)) and not isinstance(val, bool):
                    with simproc.quiet():
                        for lo, hi, cond in sym.ranges:
                            if core.expr_value(cond):
                                try:
                                    conv = float if t == core.FLOAT else (lambda x: int(x, 16 if t == core.HEX else 10))
                                    if not (conv(lo.str_value) <= val <= conv(hi.str_value)):
                                        bad = True
                                except ValueError:
                                    pass
                                break
                if bad:
                    changed = True
                else:
                    keep[name] = val
            if keep:
                clean["set"] = keep
    if "reset" in desc:
        rs = desc["reset"]
        if version < 3 or v < 3:
            changed = True
        elif not isinstance(rs, list) or not all(isinstance(x, (str, dict)) for x in rs):
            return None, None
        elif "all" in rs:
            clean["reset"] = ["all"]
            changed = changed or len(rs) > 1
        else:
            keep = []
            for x in rs:
                if isinstance(x, dict):
                    keep.append(x)
                elif "-" in x:
                    changed = True  # unknown menu id (generated ones never exist)
                elif x in k.syms and k.syms[x].nodes:
                    keep.append(x)
                else:
                    changed = True
            if keep:
                clean["reset"] = keep
    if "save" in desc:
        spec = desc["save"]
        if spec is None or (isinstance(spec, list) and spec and spec[0] == "slot"):
            clean["save"] = spec
        elif isinstance(spec, list) and spec and spec[0] in ("missing", "eacces-w", "enospc"):
            changed = True
        else:
            # a directory as save target is *not* unwritable for this code: write_config() moves it to <dir>.old and
            # creates a file in its place (noted in DESIGN.md, outside every listed property) - not classified
            return None, None
    if "version" in desc:
        clean["version"] = desc["version"]
    return False, (clean if changed else None)


def _run(sc, ctx, sb, lines, judge):
    kpath, rn, sdk = c14.prepare(sc, sb)
    if sc.get("bad_file"):
        with builtins.open(os.path.join(sb, "hand_99"), "wb") as f:
            f.write(b"CONFIG_A=\xff\xfe\n\x80abc")
    version = sc["version"]
    sess = simpipe.Session(kpath, sdk, rn, version=version, parser=sc["parser"], policy=sc.get("policy"), pipes=sc.get("pipes"),
                           verbosity=sc.get("verbosity", "quiet"))
    state = {"menu_ids": []}

    def next_line(s, i):
        if i >= len(lines):
            return None
        return srvgen.concretise(lines[i], version, sb, state["menu_ids"])

    def on_reply(i, line, obj):
        if i < 0:
            state["menu_ids"] = sorted(k for k in obj.get("visible", {}) if "-" in k) or sorted(n.id for n in (sess.k.menus if sess.k else []))
            return
        if judge:
            ctx.events += 1
            judge(i, lines[i], line, obj, sess)

    fs = simfs.SimFS(sb, chunk=64)
    with builtins.open(os.path.join(sb, "fault_eacces_r"), "w") as f:
        f.write("CONFIG_X=y\n")
    fs.fail[os.path.join(sb, "fault_eacces_r")] = ("r", errno.EACCES)
    fs.fail[os.path.join(sb, "fault_eacces_w")] = ("w", errno.EACCES)
    fs.fail[os.path.join(sb, "fault_enospc")] = ("write", errno.ENOSPC)
    try:
        with simfs.Installed(fs, [simproc.core], copyfile=False):
            sess.run(next_line, on_reply)
    finally:
        ctx.counters.update({k: v for k, v in fs.counters.items() if k.startswith("err@")})
    return sess


def execute(sc, ctx):
    lines = list(sc["lines"])
    version = sc["version"]
    offending_seen = [0]
    valid_seen = [0]

    def judge(i, desc, line, obj, sess):
        whole, _ = _offending(sess.k, desc, version, ctx.workdir + "/sb") if sess.k is not None else (None, None)
        if whole is True:
            offending_seen[0] += 1
            if not obj.get("error"):
                ctx.violate("C15/offending-request-not-reported", f"line {line!r} is offending as a whole but the reply has no error list: {obj}")
            extra = {k: v for k, v in obj.items() if k in ("values", "visible", "ranges", "defaults") and v}
            if extra:
                ctx.violate("C15/offending-request-changed-state", f"line {line!r} is offending as a whole but the reply reports changes {extra}")
        elif whole is False:
            valid_seen[0] += 1

    sb = ctx.fresh_dir()
    try:
        sess = _run(sc, ctx, sb, lines, judge)
    except simpipe.ServerDied as e:
        what = "startup" if e.after_line is None and not lines else "request"
        ctx.violate(f"C15/server-died/{type(e.exc).__name__}/{e.fn}", f"the server died ({what}): {e}")
        ctx.ev("died", type(e.exc).__name__, e.fn)
        ctx.nontrivial = True
        ctx.key = digest(("died", type(e.exc).__name__, e.fn, kgen.prog_shape(sc["prog"]), [json.dumps(x, default=repr) for x in lines]))
        return
    except simpipe.ProtocolError as e:
        ctx.violate(f"C15/stdout-contract/{e.kind}", str(e))
        return
    if len(sess.replies) != len(lines):
        ctx.violate("C15/reply-count", f"{len(lines)} lines sent, {len(sess.replies)} replies")
    # twin: the last request without its offending parts
    if lines and sess.k is not None:
        last = lines[-1]
        with simproc.quiet():
            sess.k._invalidate_all()
        snap_a = simpipe.snapshot(sess.k)
        last_line = srvgen.concretise(last, version, sb, [])
        # classify against the pre-state of the last request: replay the prefix on a probe server
        sbp = ctx.fresh_dir()  # same path: menu ids embed the Kconfig file path
        try:
            probe = _run(sc, ctx, sbp, lines[:-1], None)
            whole, clean = _offending(probe.k, last, version, sbp)
        except (simpipe.ServerDied, simpipe.ProtocolError):
            whole, clean = None, None
        twin_lines = None
        if whole is True:
            twin_lines = lines[:-1]
        elif whole is False and clean is not None:
            twin_lines = lines[:-1] + ([clean] if any(k in clean for k in ("set", "reset", "load", "save")) else [])
        if twin_lines is not None:
            ctx.counters["probe:twin-compared"] += 1
            sbt = ctx.fresh_dir()
            try:
                twin = _run(sc, ctx, sbt, twin_lines, None)
                with simproc.quiet():
                    twin.k._invalidate_all()
                a, b = snap_a, simpipe.snapshot(twin.k)
                if a != b:
                    d = [(ch, k, a[ch].get(k, "<absent>"), b[ch].get(k, "<absent>")) for ch in a for k in sorted(set(a[ch]) | set(b[ch]))
                         if a[ch].get(k, "<absent>") != b[ch].get(k, "<absent>")][:4]
                    kind = "whole-request" if whole else "part"
                    ctx.violate(f"C15/not-as-if-not-sent/{kind}/{d[0][0]}",
                                f"last line {last_line!r}: configuration differs from a twin server that did not receive the offending part(s) "
                                f"(twin got {twin_lines[-1] if len(twin_lines) == len(lines) else 'nothing'}): {d}")
            except (simpipe.ServerDied, simpipe.ProtocolError) as e:
                ctx.counters["op_raised:twin/" + type(e).__name__] += 1
    if sess.stderr_text:
        ctx.counters["probe:stderr-nonempty"] += 1
    ctx.ev("c15", version, sess.replies)
    ctx.nontrivial = offending_seen[0] > 0 and valid_seen[0] > 0
    ctx.key = (kgen.prog_shape(sc["prog"]), version, sess.sent, sess.replies)


def reductions(sc):
    yield from common.list_reductions(sc, "lines")
    if sc.get("pipes") and sc["pipes"] != ["strict", "utf-8"]:
        c = copy.deepcopy(sc)
        c["pipes"] = ["strict", "utf-8"]
        yield c
    for i, d in enumerate(sc["lines"]):
        if "raw" in d or "rawhex" in d:
            continue
        if isinstance(d.get("set"), dict) and len(d["set"]) > 1:
            for key in list(d["set"]):
                c = copy.deepcopy(sc)
                del c["lines"][i]["set"][key]
                yield c
        if len(d) > 1:
            for key in list(d):
                c = copy.deepcopy(sc)
                del c["lines"][i][key]
                yield c
    if sc.get("initial") != "empty":
        c = copy.deepcopy(sc)
        c["initial"] = "empty"
        yield c
    for key in ("hand", "tool_prefix"):
        if sc.get(key):
            c = copy.deepcopy(sc)
            c[key] = []
            yield c
    yield from common.prog_reductions(sc, keys=("prog", "prog_alt"))
