"""C14 - the config server's incremental replies keep a client exactly in sync
(DESIGN.md 3, C14).

Real kconfserver.run_server driven in-process by an inversion-of-control client
(sim/simpipe.py).  The client keeps the documented replica (four dictionaries
updated with each reply's differences); at the end of the session the replica is
compared with (a) what a newly started server would report for the live
configuration and (b) the initial message of a server restarted on the saved file.
"""
import builtins
import copy
import os

from .. import kgen, ops, simpipe, simproc, srvgen
from ..rng import digest
from . import common

ID = "C14"
LEVEL = "exploration"
BATCH = 25
PROBES_EXPECTED = ['probe:version-1', 'probe:version-2', 'probe:version-3', 'probe:restart-compared', 'probe:reply-with-error', 'probe:load-vs-restart-compared']
TIERS = {"quick": {"runs": 12000, "wall": 50}, "thorough": {"runs": 250000, "wall": 840}}
RULE = ("each run draws a program (plus test/kconfserver/Kconfig at low weight), protocol version 1-3, knobs (parser, policy, set-order salt), "
        "an initial sdkconfig (absent / tool-written in a reachable configuration / hand-written) and a session of 1-25 set / reset (options, "
        "menu ids, all, unknown ids) / load / save requests with valid and invalid targets and values; session length is drawn so every prefix "
        "is a final state somewhere; half of the sessions end with save + restart, 30 % end on a pure `load` that is compared with a restart on the loaded file; non-trivial = >=1 reply carried a non-empty difference "
        "beyond the options named in the request; distinct = digest of (program shape, version, replies)")
REAL = ["kconfserver.core.run_server/handle_request/handle_set/handle_reset/diff/get_ranges/get_visible/get_sym_default_value_dict",
        "kconfgen.core.get_json_values/write_config", "esp_kconfiglib (the server's own Kconfig instance, captured, never re-created by the harness)"]
STUB = ["stdin/stdout/stderr pipes (in-process text layers over byte pipes)", "the IDE client (documented replica: dict.update per reply)", "process restart = EOF + new run_server() on the disk"]
ASSUMPTIONS = ["requests are sent one at a time (documented), so there is no interleaving to schedule",
               "v2/v3: `visible` and `defaults` must be equal as maps; `values`/`ranges` must agree on every key of the fresh state and every extra key the replica holds must be invisible in the replica",
               "v1 (no visibility channel) is compared on the options visible in the fresh state",
               "whether a reply to a valid request carries an `error` key is not judged"]
TECHNIQUE = "deterministic simulation: in-process config server driven by an inversion-of-control client; client replica vs. from-scratch snapshot of the live configuration vs. initial message of a server restarted on the saved file (and on the file of a final `load`)"
DESIGN_REF = "DESIGN.md section 3, C14 (and 2.5 SimPipe)"
LEVEL_TEXT = "Seeded exploration of request sessions over generated programs in protocol versions 1-3, with a process restart on the saved file; sampling, not enumeration."


def generate(r, tier):
    big = tier == "thorough"
    k = r.random()
    if k < 0.15:
        prog = kgen.gen_menu_program(r)  # nested menus: menu visibility is aggregated bottom-up
    elif k < 0.4:
        # small programs dense in reverse dependencies and bare helper options (a long-running server is where stale caches show)
        prog = kgen.gen_program(r, lo=3, hi=8, feats=["set", "setdefault", "select", "imply", "choice", "menu"], p_rev=3.0, p_bare=0.5)
    else:
        prog = kgen.gen_program(r, hi=18 if big else 11, p_nodefault=0.15 if k < 0.6 else 0.0)
    sc = {"prog": prog, "parser": kgen.pick_parser(r, prog, 0.04), "hash_salt": r.getrandbits(32), "policy": r.choice([None, None, "kconfig"]),
          "version": r.choice([1, 2, 2, 3, 3, 3])}
    sc["renames"] = kgen.rename_table(r, prog)[0] if r.random() < 0.2 else None
    sc["hand"] = [kgen.handwritten(r, prog) for _ in range(r.randint(0, 2))]
    sc["tool_prefix"] = [ops.gen_history(r, prog, r.randint(0, 6), weights={"read": 0, "save": 0, "load": 0, "restart": 0, "load_hand": 0}, sane=0.9)
                         for _ in range(r.randint(0, 2))]
    sc["initial"] = r.choice(["empty", "tool", "tool", "hand", "tool+hand"])
    # under policy kconfig (stale stored defaults are ignored and reported, nothing is pinned) also a file of another tree version
    sc["prog_alt"] = kgen.evolve(r, prog) if r.random() < (0.5 if sc["policy"] == "kconfig" else 0.3) else None
    if sc["prog_alt"] and r.random() < 0.4:
        sc["initial"] = "alt"
    sc["reqs"] = srvgen.gen_requests(r, prog, r.randint(1, 25 if big else 18), sc["version"], hand_n=len(sc["hand"]), tool_n=len(sc["tool_prefix"]),
                                     alt=bool(sc["prog_alt"]))
    sc["restart"] = r.random() < 0.5
    if r.random() < 0.3:
        # end on a pure `load`: "Send a load command or restart the server" are documented as equivalent (oracle c)
        k2 = r.random()
        spec = (["alt"] if (sc["prog_alt"] and r.random() < 0.5) else
                None if k2 < 0.35 else ["tool", r.randrange(len(sc["tool_prefix"]))] if (k2 < 0.7 and sc["tool_prefix"])
                else ["hand", r.randrange(len(sc["hand"]))] if sc["hand"] else None)
        if spec == ["alt"] and sc["tool_prefix"] and r.random() < 0.6:
            # a long-lived server loads more than once: an earlier load of a file written under this tree
            sc["reqs"].insert(r.randrange(len(sc["reqs"]) + 1), {"load": ["tool", r.randrange(len(sc["tool_prefix"]))]})
        sc["reqs"].append({"load": spec})
    return sc


def summarize(sc):
    s = {k: v for k, v in sc.items() if k not in ("prog", "prog_alt")}
    s["kconfig"] = kgen.render(sc["prog"])
    if sc.get("prog_alt"):
        s["kconfig_alt"] = kgen.render(sc["prog_alt"])
    return s


def prepare(sc, sb):
    """Sandbox files: Kconfig, rename table, hand-written and tool-written sdkconfigs."""
    kpath = os.path.join(sb, "Kconfig")
    with builtins.open(kpath, "w") as f:
        f.write(kgen.render(sc["prog"]))
    rn = None
    if sc.get("renames"):
        rn = os.path.join(sb, "sdkconfig.rename")
        with builtins.open(rn, "w") as f:
            f.write(sc["renames"])
    for i, h in enumerate(sc.get("hand", [])):
        with builtins.open(os.path.join(sb, "hand_%d" % i), "w") as f:
            f.write(h)
    for j, hist in enumerate(sc.get("tool_prefix", [])):
        n = ops.KNode(sb, kgen.render(sc["prog"]), parser=sc["parser"], policy=sc.get("policy"), tag="t")
        ops.run_history(n, hist, (), None, None)
        try:
            common.server_save(n.k, os.path.join(sb, "tool_%d" % j))
        except Exception:
            pass
    if sc.get("prog_alt"):
        # a file the tool wrote under another version of the tree: its default-marked entries are stale for this one
        try:
            n = ops.KNode(sb, kgen.render(sc["prog_alt"]), parser=1, policy=sc.get("policy"), tag="alt")
            ops.run_history(n, (sc.get("tool_prefix") or [[]])[0], (), None, None)
            common.server_save(n.k, os.path.join(sb, "tool_alt"))
        except Exception:
            pass
    sdk = os.path.join(sb, "sdkconfig")
    init = sc.get("initial", "absent")
    src = None
    if init == "alt" and sc.get("prog_alt"):
        src = os.path.join(sb, "tool_alt")
    elif init == "tool" and sc.get("tool_prefix"):
        src = os.path.join(sb, "tool_0")
    elif init == "hand" and sc.get("hand"):
        src = os.path.join(sb, "hand_0")
    # the server refuses to start without its sdkconfig file (the build system always generates one first)
    with builtins.open(sdk, "wb") as g:
        if src and os.path.exists(src):
            with builtins.open(src, "rb") as f:
                g.write(f.read())
        if init == "tool+hand" and sc.get("tool_prefix") and sc.get("hand"):
            # a tool-written file with hand-appended overrides (`echo CONFIG_X=9 >> sdkconfig`)
            for part in ("tool_0", "hand_0"):
                pth = os.path.join(sb, part)
                if os.path.exists(pth):
                    with builtins.open(pth, "rb") as f:
                        g.write(f.read())
    return kpath, rn, sdk


def compare(replica, snap, version, seen_only=False):
    """Differences between the client's replica and a fresh server's state.  Returns [(channel, key, replica, fresh)].
    seen_only: restart comparison - `defaults` is compared on the options the client sees (visible in the replica);
    user values of hidden options are not written by `save` (ordinary Kconfig semantics), so their flag legitimately resets."""
    out = []
    if version >= 2:
        for ch in (("visible", "defaults") if version >= 3 else ("visible",)):
            a, b = getattr(replica, ch), snap[ch]
            for k in sorted(set(a) | set(b)):
                if seen_only and ch == "defaults" and not (replica.visible.get(k) or snap["visible"].get(k)):
                    continue
                if seen_only and ch == "defaults" and k in snap["values"] and snap["values"][k] is None:
                    # a numeric option that evaluates to no value at all (no default, user value out of range) is written
                    # as `CONFIG_X=`, which cannot be loaded back: outside the well-formed space (every numeric option
                    # has a usable fallback); only generated here to exercise the null channel of the protocol
                    continue
                if a.get(k, "<absent>") != b.get(k, "<absent>"):
                    out.append((ch, k, a.get(k, "<absent>"), b.get(k, "<absent>")))
        for ch in ("values", "ranges"):
            a, b = getattr(replica, ch), snap[ch]
            for k in sorted(b):
                if k not in a or a[k] != b[k]:
                    out.append((ch, k, a.get(k, "<absent>"), b[k]))
            for k in sorted(set(a) - set(b)):
                if replica.visible.get(k, False):
                    out.append((ch + "-extra-on-visible", k, a[k], "<absent>"))
    else:
        vis = snap["visible"]
        for k in sorted(snap["values"]):
            if vis.get(k):
                if snap["values"][k] is None and replica.values.get(k) is None:
                    continue  # v1: a null value and a missing key both mean "nothing to show"
                if replica.values.get(k, "<absent>") != snap["values"][k]:
                    out.append(("values", k, replica.values.get(k, "<absent>"), snap["values"][k]))
                if replica.ranges.get(k) != snap["ranges"].get(k) and k in snap["ranges"]:
                    out.append(("ranges", k, replica.ranges.get(k, "<absent>"), snap["ranges"][k]))
    return out


def mechanism(k, diffs):
    """Mechanism class of a replica mismatch (DESIGN.md 2.9)."""
    ch, key = diffs[0][0], diffs[0][1]
    s = k.syms.get(key) if k is not None else None
    if ch == "ranges-extra-on-visible":
        return "ranges-stale/visible-option"
    if ch == "values-extra-on-visible":
        return "values-stale/visible-option-without-value"
    if s is not None and s.choice is not None:
        return ch + "/choice-member"
    if s is not None and (s.rev_values or s.weak_rev_values):
        return ch + "/set-target"
    if s is None and "-" in str(key):
        return ch + "/menu"
    return ch + "/option"


def execute(sc, ctx):
    sb = ctx.fresh_dir()
    kpath, rn, sdk = prepare(sc, sb)
    version = sc["version"]
    replica = simpipe.Replica(version)
    sess = simpipe.Session(kpath, sdk, rn, version=version, parser=sc["parser"], policy=sc.get("policy"))
    state = {"menu_ids": [], "loads": set(), "nontrivial": False, "last_save": None, "final_load": False}
    lines = list(sc["reqs"])
    if sc.get("restart") and not (lines and isinstance(lines[-1], dict) and "save" in lines[-1]):
        # (when the session already ends on a request that saves, that save is the one the restart is compared with)
        lines = lines + [{"save": None}]

    def next_line(s, i):
        if i >= len(lines):
            return None
        d = lines[i]
        if "load" in d:
            state["loads"].add(i)
        return srvgen.concretise(d, version, sb, state["menu_ids"])

    def on_reply(i, line, obj):
        ctx.events += 1
        if i < 0:
            state["menu_ids"] = sorted(k for k in obj.get("visible", {}) if "-" in k) or sorted(
                n.id for n in (sess.k.menus if sess.k else []))
            replica.apply(obj, is_initial=True)
            return
        replica.apply(obj, was_load=i in state["loads"])
        d = lines[i]
        named = set(d.get("set", {})) | {x for x in d.get("reset", []) if isinstance(x, str)}
        if any(k not in named for ch in ("values", "visible", "ranges") for k in obj.get(ch, {})):
            state["nontrivial"] = True
        if "error" in obj:
            ctx.counters["probe:reply-with-error"] += 1
        if "save" in d and not any("save" in str(e).lower() for e in obj.get("error", [])):
            state["last_save"] = i  # the save itself was not refused (errors about other parts of the request do not undo it)
        if list(d) == ["load"] and "error" not in obj and i == len(sc["reqs"]) - 1:
            # keep what was loaded (a later `save: null` overwrites the file in use)
            src = _last_save_path(lines[: i + 1], sb, sdk)
            try:
                with builtins.open(src, "rb") as f, builtins.open(os.path.join(sb, "loaded_copy"), "wb") as g:
                    g.write(f.read())
                state["final_load"] = True
            except OSError:
                pass

    try:
        sess.run(next_line, on_reply)
    except simpipe.ServerDied as e:
        # survival is C15's subject; here the session is cut and counted
        ctx.counters["op_raised:server-died/%s/%s" % (type(e.exc).__name__, e.fn)] += 1
        ctx.ev("died", type(e.exc).__name__, e.fn)
        return
    except simpipe.ProtocolError as e:
        ctx.counters["op_raised:protocol/" + e.kind] += 1
        ctx.ev("protocol", e.kind)
        return
    k = sess.k
    ctx.counters["probe:version-%d" % version] += 1
    # (a) end of session, from scratch
    with simproc.quiet():
        k._invalidate_all()
    snap = simpipe.snapshot(k)
    d = compare(replica, snap, version)
    inj = "/injected-default" if ops.injected(k) else ""
    vtag = "v1" if version == 1 else "v2+"
    if d:
        mech = mechanism(k, d)
        # a removed range cannot be expressed by a difference, whatever else happened in the session
        ctx.violate(f"C14/replica-differs/{vtag}/{mech}{'' if mech.startswith('ranges-stale/') else inj}",
                    f"after {len(lines)} requests the client's replica differs from a newly started server's state: {d[:4]}")
    # (c) a `load` is documented as equivalent to restarting the server on that file: the session ended on a pure load
    if state.get("final_load"):
        sess3 = simpipe.Session(kpath, os.path.join(sb, "loaded_copy"), rn, version=version, parser=sc["parser"], policy=sc.get("policy"))
        try:
            sess3.run(lambda s, i: None, None)
            init = sess3.initial
            snap3 = {"values": init.get("values", {}), "ranges": {a: tuple(b) for a, b in init.get("ranges", {}).items()},
                     "visible": init.get("visible", {}), "defaults": init.get("defaults", {})}
            if version == 1:
                snap3 = simpipe.snapshot(sess3.k)
            d3 = [x for x in compare(replica, snap3, version) if x not in d]
            inj3 = "/injected-default" if (ops.injected(k) or ops.injected(sess3.k)) else ""
            if d3:
                ctx.violate(f"C14/load-differs-from-restart/{vtag}/{mechanism(sess3.k, d3)}{inj3}",
                            f"after a `load` the client's replica differs from the initial state of a server started on the loaded file: {d3[:4]}")
            ctx.counters["probe:load-vs-restart-compared"] += 1
        except simpipe.ServerDied as e:
            ctx.counters["op_raised:server-died-on-loaded-file/%s/%s" % (type(e.exc).__name__, e.fn)] += 1
        except simpipe.ProtocolError as e:
            ctx.counters["op_raised:protocol-load-restart/" + e.kind] += 1
    # (b) restart on the saved file
    if sc.get("restart") and state["last_save"] == len(lines) - 1:
        sess2 = simpipe.Session(kpath, _last_save_path(lines, sb, sdk), rn,
                                version=version, parser=sc["parser"], policy=sc.get("policy"))
        try:
            sess2.run(lambda s, i: None, None)
            init = sess2.initial
            snap2 = {"values": init.get("values", {}), "ranges": {a: tuple(b) for a, b in init.get("ranges", {}).items()},
                     "visible": init.get("visible", {}), "defaults": init.get("defaults", {})}
            if version == 1:
                # v1 initial message: invisible items carry value False and there is no visible map; use the server's own view
                snap2 = simpipe.snapshot(sess2.k)
            d2 = compare(replica, snap2, version, seen_only=True)
            # differences already explained by (a) are not restart findings
            d2 = [x for x in d2 if x not in d]
            if d2 and inj:
                # one mechanism, one signature: a stored default that was injected in the saving session (policy sdkconfig)
                ctx.violate("C14/restart-differs/injected-default-in-saving-session",
                            f"a fresh server started on the saved file reports a state different from the client's replica: {d2[:4]}")
            elif d2:
                ctx.violate(f"C14/restart-differs/{vtag}/{mechanism(sess2.k, d2)}{inj}",
                            f"a fresh server started on the saved file reports a state different from the client's replica: {d2[:4]}")
            ctx.counters["probe:restart-compared"] += 1
        except simpipe.ServerDied as e:
            ctx.violate(f"C14/restart-died/{type(e.exc).__name__}/{e.fn}", f"a server started on the file the session saved died: {e}")
        except simpipe.ProtocolError as e:
            ctx.counters["op_raised:protocol-restart/" + e.kind] += 1
    ctx.ev("c14", version, sess.replies)
    ctx.nontrivial = state["nontrivial"]
    ctx.key = (kgen.prog_shape(sc["prog"]), version, sess.replies)


def _last_save_path(lines, sb, sdk):
    cur = sdk
    for d in lines:
        for key in ("load", "save"):
            if key in d and d[key] is not None:
                p = srvgen.resolve_path(d[key], sb)
                if p:
                    cur = p
    return cur


def reductions(sc):
    yield from common.list_reductions(sc, "reqs")
    for i, d in enumerate(sc["reqs"]):
        if "set" in d and len(d["set"]) > 1:
            for key in list(d["set"]):
                c = copy.deepcopy(sc)
                del c["reqs"][i]["set"][key]
                yield c
        if len(d) > 1:
            for key in list(d):
                c = copy.deepcopy(sc)
                del c["reqs"][i][key]
                yield c
    if sc.get("initial") != "empty":
        c = copy.deepcopy(sc)
        c["initial"] = "empty"
        yield c
    if sc.get("renames"):
        c = copy.deepcopy(sc)
        c["renames"] = None
        yield c
    for key in ("hand", "tool_prefix"):
        if sc.get(key):
            c = copy.deepcopy(sc)
            c[key] = []
            yield c
    if sc.get("prog_alt") and sc.get("initial") != "alt" and not any(d.get("load") == ["alt"] for d in sc["reqs"] if isinstance(d, dict)):
        c = copy.deepcopy(sc)
        c["prog_alt"] = None
        yield c
    yield from common.prog_reductions(sc, keys=("prog", "prog_alt"))
