"""C10 - a minimal configuration reconstructs the full configuration (DESIGN.md 4, C10).

Restart from the compact snapshot: after a seeded history the node writes the
minimal configuration in its four variants (labels x normalize_unset) and through
kconfgen.write_min_config; a fresh node of the same program loads each file.
"""
import copy
import os

from .. import kgen, ops, simproc
from ..rng import digest
from . import common

core = simproc.core

ID = "C10"
LEVEL = "exploration"
BATCH = 40
PROBES_EXPECTED = ['probe:min-config-nonempty', 'probe:labels-emitted', 'probe:choice-user-pick']
TIERS = {"quick": {"runs": 7000, "wall": 50}, "thorough": {"runs": 300000, "wall": 840}}
RULE = ("each run draws a program, knobs (parser, policy, set-order salt) and a history of 1-25 operations reaching some configuration "
        "(choices picked away from their default, selected/implied bools, force-set options, hidden user values); the node then writes the "
        "minimal configuration in 4 variants + the kconfgen flavour, and a fresh node loads each; non-trivial = the minimal file contains >=1 "
        "assignment; distinct = digest of (program shape, minimal file bytes)")
REAL = ["esp_kconfiglib.core: Kconfig.write_min_config/_min_config_contents/_is_min_config_sym/_min_config_contents_with_labels, Symbol._str_default, "
        "Kconfig._load_config", "kconfgen.core.write_min_config (header + normalize_unset)"]
STUB = ["no faults; the simulator contributes the history and the restart from the compact snapshot"]
ASSUMPTIONS = ["values are compared as Symbol.str_value for every option of the tree",
               "'same assignments in the same order' = the labelled and unlabelled files minus comment and blank lines (`# CONFIG_X is not set` lines are assignments)"]
TECHNIQUE = "deterministic simulation: seeded histories with a process restart from the minimal configuration (4 variants + kconfgen), value equality against the pre-restart node, labelled vs unlabelled assignment lists"
DESIGN_REF = "DESIGN.md section 4, C10"
LEVEL_TEXT = "Seeded exploration of histories over generated programs with a restart from each minimal-config variant; sampling, not enumeration."


def generate(r, tier):
    big = tier == "thorough"
    prog = kgen.gen_program(r, hi=20 if big else 12, p_select_member=0.08)
    sc = {"prog": prog, "parser": kgen.pick_parser(r, prog, 0.05), "hash_salt": r.getrandbits(32),
          "policy": r.choice([None, "sdkconfig", "kconfig"])}
    sc["hand"] = [kgen.handwritten(r, prog) for _ in range(r.randint(0, 1))]
    sc["ops"] = ops.gen_history(r, prog, r.randint(1, 25), weights={"read": 4, "edge": 10, "save": 3, "save_min": 5, "clobber": 3, "load": 4, "restart": 3, "member_bias": 0.35},
                                hand_n=len(sc["hand"]), sane=0.85)
    return sc


def summarize(sc):
    s = {k: v for k, v in sc.items() if k != "prog"}
    s["kconfig"] = kgen.render(sc["prog"])
    return s


def _assign_lines(text):
    out = []
    for ln in text.splitlines():
        s = ln.strip()
        if not s:
            continue
        if s.startswith("#") and not (s.startswith("# CONFIG_") and s.endswith(" is not set")):
            continue
        out.append(s)
    return out


def _mechanism(k, names):
    inj = set(ops.injected(k))
    for n in names:
        s = k.syms.get(n)
        if s is None:
            continue
        if n in inj or (s.choice is not None and any(c is s.choice and ("<choice %d>" % i) in inj for i, c in enumerate(k.unique_choices))):
            return "injected-default"
    for n in names:
        s = k.syms.get(n)
        if s is None:
            continue
        if s.choice is not None:
            return "choice-member"
        if s.rev_values or s.weak_rev_values:
            return "set-target"
        if s.rev_dep is not k.n or s.weak_rev_dep is not k.n:
            return "select-imply-target"
        if not any(nd.prompt for nd in s.nodes):
            return "promptless"
        return core.TYPE_TO_STR[s.orig_type]
    return "other"


def execute(sc, ctx):
    import kconfgen.core as kg

    sb = ctx.fresh_dir()
    text = kgen.render(sc["prog"])
    node = ops.KNode(sb, text, parser=sc["parser"], policy=sc["policy"])
    done = ops.run_history(node, sc["ops"], sc["hand"], ctx, None)
    k = node.k
    # Schedule dimension: in half of the runs the writers run "cold", i.e. before this harness reads any value, so that side
    # results of the evaluation (cached values, _write_to_conf, _has_active_indirect_set) are whatever the history left behind;
    # reading every value first would refresh them and hide a writer that trusts a stale one.  The variant order is drawn too.
    cold = bool(sc["hash_salt"] & 2)
    v1 = None if cold else ops.values(k)
    ctx.counters["probe:cold-write" if cold else "probe:warm-write"] += 1
    files = {}
    combos = [(False, False), (False, True), (True, False), (True, True)]
    rot = (sc["hash_salt"] >> 2) % 4
    for vi, (labels, norm) in enumerate(combos[rot:] + combos[:rot]):
        # the destinations are the slots earlier `save_min` operations of the history wrote to (any variant): a minimal
        # configuration is normally saved over the previous one, whose text may be longer
        f = node.slot("m%d" % (vi % 3)) if vi < 3 else os.path.join(sb, "min_%d%d" % (labels, norm))
        try:
            with simproc.quiet():
                k.write_min_config(f, labels=labels, normalize_unset=norm)
        except Exception as e:
            import traceback

            fn = traceback.extract_tb(e.__traceback__)[-1].name
            ctx.violate(f"C10/write-raised/{type(e).__name__}/{fn}", f"write_min_config(labels={labels}, normalize_unset={norm}) raised {e!r}")
            continue
        files[(labels, norm)] = f
    f = os.path.join(sb, "min_kconfgen")
    try:
        with simproc.quiet(), simproc.env(ESP_IDF_KCONFIG_MIN_LABELS="1" if sc["hash_salt"] & 1 else "0", IDF_TARGET="esp32", IDF_VERSION="v9"):
            kg.write_min_config(k, f)
        files[("kconfgen", True)] = f
    except Exception as e:
        ctx.counters["op_raised:kconfgen.write_min_config/" + type(e).__name__] += 1
    if v1 is None:
        v1 = ops.values(k)
    stratum = "injection-prone" if ops.injected(k) else "injection-free"
    for key, p in sorted(files.items(), key=str):
        if not os.path.exists(p):
            ctx.violate("C10/output-missing", f"write_min_config reported success for variant {key} but {os.path.basename(p)} does not exist")
            del files[key]
    texts = {key: open(p, encoding="utf-8", errors="surrogateescape").read() for key, p in files.items()}
    for key, p in sorted(files.items(), key=str):
        n2 = node.twin()
        try:
            with simproc.quiet():
                n2.k.load_config(p)
        except Exception as e:
            ctx.violate(f"C10/reload-raised/{type(e).__name__}", f"loading minimal config {key} raised {e!r}")
            continue
        v2 = ops.values(n2.k)
        if v1 != v2:
            alld = [n for n in v1 if v1[n] != v2.get(n)]
            d = [(n, v1[n], v2.get(n)) for n in alld][:4]
            ctx.violate(f"C10/values-differ/{_mechanism(k, alld)}/{stratum}",
                        f"variant labels={key[0]} normalize_unset={key[1]}: values after loading the minimal config differ: {d}; file: {texts[key][:300]!r}")
    for norm in (False, True):
        if (False, norm) in texts and (True, norm) in texts:
            a, b = _assign_lines(texts[(False, norm)]), _assign_lines(texts[(True, norm)])
            if a != b:
                ctx.violate("C10/labelled-differs" + ("/same-set" if sorted(a) == sorted(b) else "/different-set"),
                            f"normalize_unset={norm}: labelled and unlabelled minimal configs carry different assignment lists: {a[:6]} vs {b[:6]}")
            if any(ln.startswith("# ") and not ln.startswith("# CONFIG_") for ln in texts[(True, norm)].splitlines()):
                ctx.counters["probe:labels-emitted"] += 1
    base = texts.get((False, False), "")
    nassign = len(_assign_lines(base))
    if nassign:
        ctx.counters["probe:min-config-nonempty"] += 1
    if any(c._user_selection is not None for c in k.unique_choices):
        ctx.counters["probe:choice-user-pick"] += 1
    ctx.ev("c10", done, digest(base))
    ctx.nontrivial = nassign > 0
    ctx.key = digest((kgen.prog_shape(sc["prog"]), base))


def reductions(sc):
    yield from common.list_reductions(sc, "ops")
    if sc.get("policy"):
        c = copy.deepcopy(sc)
        c["policy"] = None
        yield c
    yield from common.prog_reductions(sc)
