"""C12 - dependency sync flags every changed option, even across interrupted runs
(DESIGN.md 3, C12).

System: real Kconfig.sync_deps/_load_old_vals/_write_old_vals/_touch_dep_file on
SimFS.  Stub: the build system, modelled as `path -> last tick touched` read off
the journal.  Every mutating file-system operation of the crashed sync is a crash
point (writes additionally torn), enumerated completely per sampled history.
"""
import builtins
import copy
import os
import shutil

from .. import kgen, simfs, simproc
from ..rng import digest
from ..simfs import SimCrash
from . import common

ID = "C12"
LEVEL = "fault_enumeration"
BATCH = 10
PROBES_EXPECTED = ['probe:changed-between-completed-syncs', 'probe:crash-history', 'probe:fault-free-history', 'probe:rerun-on-same-config', 'probe:tree-version-switch', 'probe:rename-table', 'crash@touch', 'crash@write', 'crash@write/torn', 'crash@replace', 'crash@create', 'crash@makedirs']
TIERS = {"quick": {"runs": 2000, "wall": 40}, "thorough": {"runs": 80000, "wall": 840}}
RULE = ("each run draws a program (optionally an evolved second version and a rename table), a history of 2-6 configurations with a "
        "sync after each into one or two dependency directories (a fresh node per sync, as in a build; in fault-free histories optionally one long-lived instance), and optionally one crashed sync whose every mutating FS operation is a "
        "crash point (writes torn at seeded prefixes incl. 0 bytes), followed by a rerun on the same or on further configurations; "
        "non-trivial = some option's build-visible value changed between two completed syncs and (fault batch) a crash fired; "
        "distinct = digest of (program shape, per-sync changed-name counts, journal kinds, fault placements)")
REAL = ["esp_kconfiglib.core.Kconfig.sync_deps/_load_old_vals/_write_old_vals/_old_vals_contents/_write_if_changed/_contents_eq",
        "esp_kconfiglib.core._touch_dep_file", "esp_kconfiglib.deprecated (alias lookup)", "kernel FS semantics (real backing directory)"]
STUB = ["build system (map path -> last touch tick, from the SimFS journal)", "process death (SimCrash)", "write buffering (chunked)"]
ASSUMPTIONS = ["process-death model: completed system calls are durable and ordered; power-loss reordering is not modelled",
               "build-visible value = the option's line in the generated C header (Kconfig._header_string); an alias differs iff its option does",
               "no-over-touch is judged only between two completed syncs with no interrupted sync in between"]
TECHNIQUE = "deterministic simulation: SimFS journal as the build system's clock, complete crash-point/torn-write enumeration of the interrupted sync per sampled configuration history, bookkeeping reference model of recorded values"
DESIGN_REF = "DESIGN.md section 3, C12 (and 2.3 SimFS)"
LEVEL_TEXT = ("Per sampled (program, versions, rename table, configuration history) the sync after each configuration runs on the simulated "
              "disk; for the designated sync every mutating file-system operation (mkdir, each truncating touch and its makedirs, truncate and "
              "every chunk of auto.conf) is a crash point, writes are additionally torn; after every completed sync the bookkeeping model "
              "(changed names since the last completed sync -> .cdep path touched since then; no over-touch; idempotent rerun) is evaluated. "
              "Histories are sampled, the crash dimension within one is exhaustive.")


def generate(r, tier):
    big = tier == "thorough"
    prog = kgen.gen_program(r, lo=2, hi=22 if big else 10)
    sc = {"prog": prog, "parser": kgen.pick_parser(r, prog, 0.05), "hash_salt": r.getrandbits(32),
          "chunk": r.choice([4, 16, 16, 64, 8192])}
    sc["prog2"] = kgen.evolve(r, prog, remove_mentioned=0.5, retype=0.3) if r.random() < 0.3 else None
    if sc["prog2"] and not kgen.v2_ok(sc["prog2"]):
        sc["parser"] = 1
    sc["renames"], _ = kgen.rename_table(r, prog) if r.random() < 0.4 else (None, [])
    tab = kgen.sym_table(prog)
    tab2 = kgen.sym_table(sc["prog2"]) if sc["prog2"] else {}
    alltab = dict(tab2)
    alltab.update(tab)
    names = list(alltab)
    steps = []
    ver = 0
    for i in range(r.randint(2, 6 if big else 5)):
        if sc["prog2"] and r.random() < 0.35:
            ver = 1 - ver
        n = r.choice([0, 1, 1, 2, 3])
        asg = []
        for _ in range(n):
            if not names:
                break
            nm = r.choice(names)
            t = alltab[nm]["type"]
            asg.append([nm, r.choice(kgen.SANE[t] if r.random() < 0.9 else kgen.VALS[t])])
        steps.append({"set": asg, "ver": ver})
    sc["steps"] = steps
    # several dependency directories served by one configuration (kconfgen takes --output cdep_tree more than once),
    # and a long-lived instance that syncs repeatedly (fault-free histories only: a crash ends the process)
    sc["ndirs"] = 2 if r.random() < 0.3 else 1
    for st in steps:
        st["dirs"] = [0] if sc["ndirs"] == 1 else r.choice([[0], [1], [0, 1], [1, 0], [0, 1]])
    sc["reuse"] = r.random() < 0.5
    # fault-free histories may run the sync the way the build system does: `kconfgen --output cdep_tree <dir>` (all
    # directories of a step in one kconfgen run, the configuration handed over in a defaults file)
    sc["via"] = "kconfgen" if r.random() < 0.3 else "lib"
    # the build system may keep the recorded state elsewhere and leave a symbolic link in the dependency directory
    sc["autoconf_symlink"] = r.random() < 0.25
    sc["crash_step"] = r.randrange(0, len(steps)) if r.random() < 0.75 else None
    sc["rerun_same"] = r.random() < 0.4  # insert a rerun on the unchanged configuration right after the crashed sync
    if sc["crash_step"] is not None and r.random() < 0.5:
        # what a lost record hurts most: options that go from set to unset *after* the interrupted sync
        bools = [n for n in names if alltab[n]["type"] == kgen.BOOL]
        if bools:
            extra = [[r.choice(bools), "n"] for _ in range(r.randint(1, 3))]
            if sc["crash_step"] + 1 < len(steps):
                steps[sc["crash_step"] + 1]["set"] = steps[sc["crash_step"] + 1]["set"] + extra
            else:
                steps.append({"set": extra, "ver": steps[-1]["ver"]})
    sc["torn"] = [0.0] + [round(r.random(), 3) for _ in range(r.choice([1, 1, 2]))]
    return sc


def summarize(sc):
    s = {k: v for k, v in sc.items() if k not in ("prog", "prog2")}
    s["kconfig"] = kgen.render(sc["prog"])
    if sc.get("prog2"):
        s["kconfig_v2"] = kgen.render(sc["prog2"])
    return s


def _R(k):
    return {s.name: s.str_value for s in k.unique_defined_syms
            if s.config_string and not (s.orig_type == simproc.core.BOOL and s.str_value == "n")}


def _H(k):
    h = {}
    for s in k.unique_defined_syms:
        hs = k._header_string(s)
        if hs:
            h[s.name] = hs
    return h


DIRNAMES = ["deps", "depsb"]


def _relpath(name, d=0):
    return os.path.join(DIRNAMES[d], name.lower().replace("_", os.sep) + ".cdep")


def execute(sc, ctx):
    sb = ctx.fresh_dir()
    kpaths = []
    for i, key in enumerate(("prog", "prog2")):
        if sc.get(key):
            p = os.path.join(sb, "Kconfig%d" % i)
            with builtins.open(p, "w") as f:
                f.write(kgen.render(sc[key]))
            kpaths.append(p)
    rn = None
    if sc.get("renames"):
        rn = os.path.join(sb, "sdkconfig.rename")
        with builtins.open(rn, "w") as f:
            f.write(sc["renames"])
    ndirs = 2 if sc.get("ndirs") == 2 else 1
    # every crash variant boots fresh instances; the pyparsing-based parser is ~18x slower and irrelevant to what is judged
    # here, so interrupted histories always use the line parser
    parser = 1 if sc["crash_step"] is not None else sc["parser"]
    dpaths = [os.path.join(sb, DIRNAMES[d]) for d in range(ndirs)]
    fs = simfs.SimFS(sb, chunk=sc["chunk"])
    mods = [simproc.core]

    # the effective step list (a rerun on the same configuration may follow the crashed sync)
    steps = []
    for i, st in enumerate(sc["steps"]):
        steps.append((i, st, sc["crash_step"] == i))
        if sc["crash_step"] == i and sc.get("rerun_same"):
            steps.append((i, {"set": [], "ver": st["ver"], "dirs": st.get("dirs", [0])}, False))

    def step_dirs(idx):
        return [d for d in steps[idx][1].get("dirs", [0]) if d < ndirs] or [0]

    # A crash kills the process, so every sync after an interrupted one is a fresh instance; in fault-free histories the
    # instance may also be long-lived (one process that changes values and syncs again, possibly into several directories:
    # `kconfgen --output cdep_tree A --output cdep_tree B`).
    reuse = bool(sc.get("reuse")) and sc["crash_step"] is None

    # the aliases of an option, from the rename file itself (last mapping of a deprecated name wins) - not from the
    # reverse map of the code under test, which is what sync_deps() consults
    forward = {}
    for ln in (sc.get("renames") or "").splitlines():
        parts = ln.split()
        if len(parts) == 2 and parts[0].startswith("CONFIG_") and parts[1].lstrip("!").startswith("CONFIG_"):
            forward[parts[0][len("CONFIG_"):]] = parts[1].lstrip("!")[len("CONFIG_"):]
    alias_model = {}
    for old, new in forward.items():
        alias_model.setdefault(new, []).append(old)

    def describe(k):
        aliases = {s.name: list(alias_model[s.name]) for s in k.unique_defined_syms if s.name in alias_model} if rn else {}
        return (k, _H(k), _R(k), aliases)

    def assign(k, pairs):
        for nm, v in pairs:
            s = k.syms.get(nm)
            if s is not None and s.nodes:
                s.set_value(v)

    nodes = {}
    cums = []
    cum = []
    for _, st, _c in steps:
        cum = cum + st["set"]
        cums.append(cum)
    if not reuse:
        # one node per step (a fresh process per sync, cumulative assignments), reused across crash variants
        for idx, (_, st, _c) in enumerate(steps):
            try:
                k = simproc.new_kconfig(kpaths[min(st["ver"], len(kpaths) - 1)], parser=parser, renames=[rn] if rn else None)
                with simproc.quiet():
                    assign(k, cums[idx])
                    nodes[idx] = describe(k)
            except Exception as e:
                ctx.counters["op_raised:" + type(e).__name__] += 1
                ctx.ev("setup-raised", type(e).__name__)
                return
    def fresh(idx):
        """A new process for the sync of step idx (every crash variant is its own world: instances are not shared between
        worlds, and no instance survives the crash inside one)."""
        st = steps[idx][1]
        k = simproc.new_kconfig(kpaths[min(st["ver"], len(kpaths) - 1)], parser=parser, renames=[rn] if rn else None)
        with simproc.quiet():
            assign(k, cums[idx])
        return k

    live = {}  # ver -> [instance, number of cumulative assignments applied]

    def prepare(idx):
        if idx in nodes and not reuse:
            return nodes[idx]
        st = steps[idx][1]
        ver = min(st["ver"], len(kpaths) - 1)
        if ver not in live:
            live[ver] = [simproc.new_kconfig(kpaths[ver], parser=parser, renames=[rn] if rn else None), 0]
        k, done = live[ver]
        with simproc.quiet():
            assign(k, cums[idx][done:])
            live[ver][1] = len(cums[idx])
            nodes[idx] = describe(k)
        return nodes[idx]

    class SyncRaised(Exception):
        pass

    via_kconfgen = sc.get("via") == "kconfgen" and sc["crash_step"] is None and not reuse
    if via_kconfgen:
        import kconfgen.core as kg

        ctx.counters["probe:sync-through-kconfgen"] += 1
        # (an option may have another type in the other version of the tree: the defaults file is written for the step's own)
        tabs = [kgen.sym_table(sc["prog"])] + ([kgen.sym_table(sc["prog2"])] if sc.get("prog2") else [])

    def kconfgen_sync(idx, d):
        st = steps[idx][1]
        dfl = os.path.join(sb, "sdkconfig.defaults.%d" % idx)
        alltab = tabs[min(st["ver"], len(tabs) - 1)]
        with builtins.open(dfl, "w", encoding="utf-8") as f:
            f.write("".join(kgen.assign_line(nm, alltab[nm]["type"], v) for nm, v in cums[idx] if nm in alltab))
        args = ["--kconfig", kpaths[min(st["ver"], len(kpaths) - 1)], "--defaults", dfl, "--env", "IDF_TARGET=esp32", "--env", "IDF_VERSION=v9.9",
                "--env", "KCONFIG_REPORT_VERBOSITY=quiet", "--env", "KCONFIG_PARSER_VERSION=%d" % parser, "--output", "cdep_tree", dpaths[d]]
        if rn:
            args += ["--sdkconfig-rename", rn]
        simproc.fresh_report()
        simproc.next_process()
        try:
            kg.main.main(args=args, standalone_mode=False)
        finally:
            simproc.scrub_env()

    def sync(k, d, idx=None):
        try:
            with simfs.Installed(fs, mods + ([kg] if via_kconfgen else []), copyfile=False,
                                 tempdir=os.path.join(sb, "tmp") if via_kconfgen else None), simproc.quiet():
                if via_kconfgen and idx is not None:
                    kconfgen_sync(idx, d)
                else:
                    k.sync_deps(dpaths[d])
        except SimCrash:
            raise
        except Exception as e:  # noqa: B902
            # a sync that cannot complete loses every trigger it should have raised; after an interrupted run this is
            # exactly the "later rerun" of the statement (e.g. a torn auto.conf that no longer decodes)
            import traceback

            fn = traceback.extract_tb(e.__traceback__)[-1].name
            how = "fault-free" if all(st["clean"] for st in states) else "after-crash"
            ctx.violate(f"C12/sync-raised/{type(e).__name__}/{fn}/{how}", f"sync_deps({DIRNAMES[d]}) raised {type(e).__name__}: {e}")
            raise SyncRaised() from e

    def new_state():
        return {"H": {}, "R": {}, "aliases": {}, "done_tick": 0, "clean": True, "tag": None}

    touched = {}
    states = [new_state() for _ in range(ndirs)]
    statedir = os.path.join(sb, "state")

    def account(t0):
        for tick, kind, path, _info in fs.ops_since(t0):
            if kind == "touch":
                touched[path] = tick

    def changed_names(old, new, old_alias, new_alias):
        out = set()
        for n in set(old) | set(new):
            if old.get(n) != new.get(n):
                out.add(n)
                out.update(old_alias.get(n, ()))
                out.update(new_alias.get(n, ()))
        return out

    def completed(idx, d, t0, k=None):
        """Oracles after a completed sync of step list index idx into directory d."""
        k0, H, R, aliases = nodes[idx]
        k = k or k0
        state = states[d]
        tag = state["tag"]
        chg_h = changed_names(state["H"], H, state["aliases"], aliases)
        chg_r = changed_names(state["R"], R, state["aliases"], aliases)
        dtag = "" if d == 0 else "/second-directory"
        for n in sorted(chg_h):
            if touched.get(_relpath(n, d), 0) <= state["done_tick"]:
                kind = "alias" if (n not in H and n not in state["H"]) else (
                    "appeared" if n not in state["H"] else ("disappeared" if n not in H else "changed"))
                how = "fault-free" if tag is None else "after-crash-in-" + tag
                ctx.violate(f"C12/lost-trigger/{kind}/{how}{dtag}",
                            f"option {n}: build-visible value {state['H'].get(n)!r} -> {H.get(n)!r} between completed syncs of {DIRNAMES[d]}, "
                            f"but {_relpath(n, d)} was not touched since the earlier one (step {steps[idx][0]}, {how}"
                            f"{', long-lived instance' if reuse else ''})")
        if state["clean"]:
            # (a change of type with the same value text changes the recorded line and the header, though not str_value)
            allowed = {_relpath(n, d) for n in chg_r | chg_h}
            for tick, kind, path, _info in fs.ops_since(t0):
                if kind == "touch" and path not in allowed:
                    ctx.violate("C12/over-touch" + dtag, f"{path} touched by the sync of step {steps[idx][0]} into {DIRNAMES[d]} although no option mapping to it changed")
            # idempotence: an immediately repeated sync adds no journal entry
            t1 = fs.tick
            fs.arm()
            try:
                sync(k, d, idx)
            except SyncRaised:
                pass
            # (kconfgen's own scratch files are not part of the dependency directory)
            extra = [e for e in fs.ops_since(t1) if e[2].startswith(DIRNAMES[d] + os.sep)]
            ctx.events += fs.opcount
            if extra:
                ctx.violate("C12/not-idempotent" + dtag, f"repeated sync performed {[(e[1], e[2]) for e in extra][:6]}")
            account(t1)
        if chg_h:
            ctx.counters["probe:changed-between-completed-syncs"] += 1
        state.update(H=H, R=R, aliases=aliases, done_tick=fs.tick, clean=True, tag=None)
        ac = os.path.join(dpaths[d], "auto.conf")
        if sc.get("autoconf_symlink") and os.path.isfile(ac) and not os.path.islink(ac) and not state.get("linked"):
            # (done by the harness, outside the journal: somebody moved the file and left a link)
            os.makedirs(statedir, exist_ok=True)
            tgt = os.path.join(statedir, "auto.conf.%d" % d)
            os.replace(ac, tgt)
            os.symlink(tgt, ac)
            state["linked"] = True
            ctx.counters["probe:auto.conf-is-a-symlink"] += 1

    def run_from(start, crash_k, torn):
        """Run steps[start:], crashing the first of them at (crash_k, torn) if given."""
        for idx in range(start, len(steps)):
            k = prepare(idx)[0] if crash_idx is None else fresh(idx)
            if idx == start and crash_k is not None:
                fs.arm(crash_at=crash_k, torn=torn)
            else:
                fs.arm()
            crashed = False
            for d in step_dirs(idx):
                t0 = fs.tick
                try:
                    sync(k, d, idx)
                except SimCrash:
                    crashed = True
                except SyncRaised:
                    return
                account(t0)
                if crashed:
                    # mechanism class of the interruption: while flagging (.cdep touches) or while recording (auto.conf*)
                    last = fs.journal[-1][2] if (fs.journal and fs.journal[-1][0] > t0) else ""
                    states[d]["tag"] = "record-phase" if (fs.crash_kind in ("write", "truncate", "create", "replace") or "auto.conf" in last) else "touch-phase"
                    states[d]["clean"] = False
                    ctx.counters["crash_points_enumerated"] += 1
                    break  # the process is dead: the remaining directories of this step are not synced
                keep = (fs.opcount, fs.crash_at, fs.torn)
                completed(idx, d, t0, k)
                # completed() re-armed the disk for its idempotence probe; keep counting this step's operations (and keep
                # its crash fault armed: it may be due in the sync of the step's next directory)
                fs.opcount, fs.crash_at, fs.torn = keep
            ctx.events += fs.opcount
            if not crashed and idx == start and crash_k is not None:
                ctx.violate("C12/harness/crash-not-fired", f"crash point {crash_k} did not fire")

    trace = []
    crash_idx = next((i for i, s in enumerate(steps) if s[2]), None)
    if crash_idx is None:
        run_from(0, None, None)
        trace.append([j[1] for j in fs.journal])
        ctx.counters["probe:fault-free-history"] += 1
        if reuse:
            ctx.counters["probe:long-lived-instance"] += 1
    else:
        # fault-free prefix, then snapshot, dry run of the crash step to count its operations
        for idx in range(crash_idx):
            k = prepare(idx)[0]
            for d in step_dirs(idx):
                t0 = fs.tick
                fs.arm()
                try:
                    sync(k, d)
                except SyncRaised:
                    return
                ctx.events += fs.opcount
                account(t0)
                completed(idx, d, t0)
        snaps = []
        for d in range(ndirs):
            sd = os.path.join(sb, "snap%d" % d)
            if os.path.isdir(dpaths[d]):
                shutil.copytree(dpaths[d], sd, symlinks=True)
            snaps.append(sd)
        snap_statedir = os.path.join(sb, "snap_state")
        if os.path.isdir(statedir):
            shutil.copytree(statedir, snap_statedir)
        snap_state = copy.deepcopy(states)
        snap_touched = dict(touched)
        snap_tick, snap_journal = fs.tick, len(fs.journal)

        def restore():
            for d in range(ndirs):
                shutil.rmtree(dpaths[d], ignore_errors=True)
                if os.path.isdir(snaps[d]):
                    shutil.copytree(snaps[d], dpaths[d], symlinks=True)
            shutil.rmtree(statedir, ignore_errors=True)
            if os.path.isdir(snap_statedir):
                shutil.copytree(snap_statedir, statedir)
            states[:] = copy.deepcopy(snap_state)
            touched.clear()
            touched.update(snap_touched)
            fs.tick = snap_tick
            del fs.journal[snap_journal:]

        # dry run of the crash step: all its directories under one operation counter, no idempotence probes
        fs.arm()
        kc = prepare(crash_idx)[0]
        for d in step_dirs(crash_idx):
            try:
                sync(kc, d)
            except SyncRaised:
                return
        n_ops = fs.opcount
        kinds = [j[1] for j in fs.journal[snap_journal:]]
        n_writes = sum(1 for x in kinds if x == "write")
        if n_writes > 60:
            # keep the enumeration affordable: a larger effective chunk (the enumeration stays complete with respect to it,
            # as in C13), then the dry run is repeated
            fs.chunk = fs.chunk * (1 + n_writes // 60)
            restore()
            fs.arm()
            for d in step_dirs(crash_idx):
                try:
                    sync(prepare(crash_idx)[0] if False else fresh(crash_idx), d)
                except SyncRaised:
                    return
            n_ops = fs.opcount
            kinds = [j[1] for j in fs.journal[snap_journal:]]
            ctx.counters["probe:chunk-enlarged"] += 1
        trace.append(kinds)
        if n_ops != len(kinds):
            ctx.violate("C12/harness/op-count", f"dry run counted {n_ops} operations but journalled {len(kinds)}")
        for kidx in range(n_ops):
            variants = [None] + (sc["torn"] if kinds[kidx] == "write" else [])
            for torn in variants:
                restore()
                run_from(crash_idx, kidx, torn)
        # and the fault-free continuation
        restore()
        run_from(crash_idx, None, None)
        ctx.counters["probe:crash-history"] += 1
        if sc.get("rerun_same"):
            ctx.counters["probe:rerun-on-same-config"] += 1
        if any(s[1]["ver"] for s in steps):
            ctx.counters["probe:tree-version-switch"] += 1
    if rn:
        ctx.counters["probe:rename-table"] += 1
    if ndirs == 2:
        ctx.counters["probe:two-directories"] += 1
    ctx.counters.update(fs.counters)
    order = sorted(nodes)
    ctx.ev("c12", trace, [len(nodes[i][1]) for i in order])
    ctx.nontrivial = ctx.counters["probe:changed-between-completed-syncs"] > 0 and (crash_idx is None or ctx.counters["crash_points_enumerated"] > 0)
    ctx.key = digest((kgen.prog_shape(sc["prog"]), trace, [sorted(nodes[i][2].items()) for i in order], sc["crash_step"], sc["chunk"]))


def reductions(sc):
    n = len(sc["steps"])
    for i in reversed(range(n)):
        if n > 1:
            c = copy.deepcopy(sc)
            del c["steps"][i]
            if c["crash_step"] is not None:
                if c["crash_step"] == i:
                    continue
                if c["crash_step"] > i:
                    c["crash_step"] -= 1
            yield c
    for i, st in enumerate(sc["steps"]):
        for j in range(len(st["set"])):
            c = copy.deepcopy(sc)
            del c["steps"][i]["set"][j]
            yield c
    if sc.get("rerun_same"):
        c = copy.deepcopy(sc)
        c["rerun_same"] = False
        yield c
    if sc.get("ndirs") == 2:
        c = copy.deepcopy(sc)
        c["ndirs"] = 1
        yield c
        for i, st in enumerate(sc["steps"]):
            if len(st.get("dirs", [0])) > 1:
                for keep in st["dirs"]:
                    c = copy.deepcopy(sc)
                    c["steps"][i]["dirs"] = [keep]
                    yield c
    if sc.get("reuse"):
        c = copy.deepcopy(sc)
        c["reuse"] = False
        yield c
    if sc.get("renames"):
        c = copy.deepcopy(sc)
        c["renames"] = None
        yield c
    if sc.get("prog2") and not any(s["ver"] for s in sc["steps"]):
        c = copy.deepcopy(sc)
        c["prog2"] = None
        yield c
    yield from common.prog_reductions(sc)
