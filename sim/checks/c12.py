"""C12 - dependency sync flags every changed option, even across interrupted runs
(DESIGN.md 3, C12).

System: real Kconfig.sync_deps/_load_old_vals/_write_old_vals/_touch_dep_file on
SimFS.  Stub: the build system, modelled as `path -> last tick touched` read off
the journal.  Every mutating file-system operation of the crashed sync is a crash
point (writes additionally torn), enumerated completely per sampled history.
"""
import builtins
import copy
import os
import shutil

from .. import kgen, simfs, simproc
from ..rng import digest
from ..simfs import SimCrash
from . import common

ID = "C12"
LEVEL = "fault_enumeration"
BATCH = 10
PROBES_EXPECTED = ['probe:changed-between-completed-syncs', 'probe:crash-history', 'probe:fault-free-history', 'probe:rerun-on-same-config', 'probe:tree-version-switch', 'probe:rename-table', 'crash@touch', 'crash@write', 'crash@write/torn', 'crash@replace', 'crash@create', 'crash@makedirs']
TIERS = {"quick": {"runs": 2000, "wall": 50}, "thorough": {"runs": 80000, "wall": 840}}
RULE = ("each run draws a program (optionally an evolved second version and a rename table), a history of 2-6 configurations with a "
        "sync after each (a fresh node per sync, as in a build), and optionally one crashed sync whose every mutating FS operation is a "
        "crash point (writes torn at seeded prefixes incl. 0 bytes), followed by a rerun on the same or on further configurations; "
        "non-trivial = some option's build-visible value changed between two completed syncs and (fault batch) a crash fired; "
        "distinct = digest of (program shape, per-sync changed-name counts, journal kinds, fault placements)")
REAL = ["esp_kconfiglib.core.Kconfig.sync_deps/_load_old_vals/_write_old_vals/_old_vals_contents/_write_if_changed/_contents_eq",
        "esp_kconfiglib.core._touch_dep_file", "esp_kconfiglib.deprecated (alias lookup)", "kernel FS semantics (real backing directory)"]
STUB = ["build system (map path -> last touch tick, from the SimFS journal)", "process death (SimCrash)", "write buffering (chunked)"]
ASSUMPTIONS = ["process-death model: completed system calls are durable and ordered; power-loss reordering is not modelled",
               "build-visible value = the option's line in the generated C header (Kconfig._header_string); an alias differs iff its option does",
               "no-over-touch is judged only between two completed syncs with no interrupted sync in between"]
TECHNIQUE = "deterministic simulation: SimFS journal as the build system's clock, complete crash-point/torn-write enumeration of the interrupted sync per sampled configuration history, bookkeeping reference model of recorded values"
DESIGN_REF = "DESIGN.md section 3, C12 (and 2.3 SimFS)"
LEVEL_TEXT = ("Per sampled (program, versions, rename table, configuration history) the sync after each configuration runs on the simulated "
              "disk; for the designated sync every mutating file-system operation (mkdir, each truncating touch and its makedirs, truncate and "
              "every chunk of auto.conf) is a crash point, writes are additionally torn; after every completed sync the bookkeeping model "
              "(changed names since the last completed sync -> .cdep path touched since then; no over-touch; idempotent rerun) is evaluated. "
              "Histories are sampled, the crash dimension within one is exhaustive.")


def generate(r, tier):
    big = tier == "thorough"
    prog = kgen.gen_program(r, lo=2, hi=22 if big else 10)
    sc = {"prog": prog, "parser": kgen.pick_parser(r, prog, 0.05), "hash_salt": r.getrandbits(32),
          "chunk": r.choice([4, 16, 16, 64, 8192])}
    sc["prog2"] = kgen.evolve(r, prog) if r.random() < 0.3 else None
    if sc["prog2"] and not kgen.v2_ok(sc["prog2"]):
        sc["parser"] = 1
    sc["renames"], _ = kgen.rename_table(r, prog) if r.random() < 0.4 else (None, [])
    tab = kgen.sym_table(prog)
    tab2 = kgen.sym_table(sc["prog2"]) if sc["prog2"] else {}
    alltab = dict(tab2)
    alltab.update(tab)
    names = list(alltab)
    steps = []
    ver = 0
    for i in range(r.randint(2, 6 if big else 5)):
        if sc["prog2"] and r.random() < 0.35:
            ver = 1 - ver
        n = r.choice([0, 1, 1, 2, 3])
        asg = []
        for _ in range(n):
            if not names:
                break
            nm = r.choice(names)
            t = alltab[nm]["type"]
            asg.append([nm, r.choice(kgen.SANE[t] if r.random() < 0.9 else kgen.VALS[t])])
        steps.append({"set": asg, "ver": ver})
    sc["steps"] = steps
    sc["crash_step"] = r.randrange(0, len(steps)) if r.random() < 0.75 else None
    sc["rerun_same"] = r.random() < 0.4  # insert a rerun on the unchanged configuration right after the crashed sync
    sc["torn"] = [0.0] + [round(r.random(), 3) for _ in range(r.choice([1, 1, 2]))]
    return sc


def summarize(sc):
    s = {k: v for k, v in sc.items() if k not in ("prog", "prog2")}
    s["kconfig"] = kgen.render(sc["prog"])
    if sc.get("prog2"):
        s["kconfig_v2"] = kgen.render(sc["prog2"])
    return s


def _R(k):
    return {s.name: s.str_value for s in k.unique_defined_syms
            if s.config_string and not (s.orig_type == simproc.core.BOOL and s.str_value == "n")}


def _H(k):
    h = {}
    for s in k.unique_defined_syms:
        hs = k._header_string(s)
        if hs:
            h[s.name] = hs
    return h


def _relpath(name):
    return os.path.join("deps", name.lower().replace("_", os.sep) + ".cdep")


def execute(sc, ctx):
    sb = ctx.fresh_dir()
    kpaths = []
    for i, key in enumerate(("prog", "prog2")):
        if sc.get(key):
            p = os.path.join(sb, "Kconfig%d" % i)
            with builtins.open(p, "w") as f:
                f.write(kgen.render(sc[key]))
            kpaths.append(p)
    rn = None
    if sc.get("renames"):
        rn = os.path.join(sb, "sdkconfig.rename")
        with builtins.open(rn, "w") as f:
            f.write(sc["renames"])
    deps = os.path.join(sb, "deps")
    fs = simfs.SimFS(sb, chunk=sc["chunk"])
    mods = [simproc.core]

    # the effective step list (a rerun on the same configuration may follow the crashed sync)
    steps = []
    for i, st in enumerate(sc["steps"]):
        steps.append((i, st, sc["crash_step"] == i))
        if sc["crash_step"] == i and sc.get("rerun_same"):
            steps.append((i, {"set": [], "ver": st["ver"]}, False))

    # one node per step (a fresh process per sync, cumulative assignments), reused across crash variants
    nodes = []
    cum = []
    for _, st, _c in steps:
        cum = cum + st["set"]
        try:
            k = simproc.new_kconfig(kpaths[min(st["ver"], len(kpaths) - 1)], parser=sc["parser"], renames=[rn] if rn else None)
            with simproc.quiet():
                for nm, v in cum:
                    s = k.syms.get(nm)
                    if s is not None and s.nodes:
                        s.set_value(v)
                aliases = {}
                if k._deprecated_options:
                    for s in k.unique_defined_syms:
                        al = list(k._deprecated_options.get_deprecated_option(s.name))
                        if al:
                            aliases[s.name] = al
                nodes.append((k, _H(k), _R(k), aliases))
        except Exception as e:
            ctx.counters["op_raised:" + type(e).__name__] += 1
            ctx.ev("setup-raised", type(e).__name__)
            return

    def sync(k):
        with simfs.Installed(fs, mods, copyfile=False), simproc.quiet():
            k.sync_deps(deps)

    state = {"touched": {}, "H": {}, "R": {}, "aliases": {}, "done_tick": 0, "clean": True}

    def account(t0):
        for tick, kind, path, _info in fs.ops_since(t0):
            if kind == "touch":
                state["touched"][path] = tick

    def changed_names(old, new, old_alias, new_alias):
        out = set()
        for n in set(old) | set(new):
            if old.get(n) != new.get(n):
                out.add(n)
                out.update(old_alias.get(n, ()))
                out.update(new_alias.get(n, ()))
        return out

    def completed(idx, t0, tag):
        """Oracles after a completed sync of step list index idx."""
        k, H, R, aliases = nodes[idx]
        chg_h = changed_names(state["H"], H, state["aliases"], aliases)
        chg_r = changed_names(state["R"], R, state["aliases"], aliases)
        for n in sorted(chg_h):
            if state["touched"].get(_relpath(n), 0) <= state["done_tick"]:
                kind = "alias" if (n not in H and n not in state["H"]) else (
                    "appeared" if n not in state["H"] else ("disappeared" if n not in H else "changed"))
                how = "fault-free" if tag is None else "after-crash-in-" + tag
                ctx.violate(f"C12/lost-trigger/{kind}/{how}",
                            f"option {n}: build-visible value {state['H'].get(n)!r} -> {H.get(n)!r} between completed syncs, "
                            f"but {_relpath(n)} was not touched since the earlier one (step {steps[idx][0]}, {how})")
        if state["clean"]:
            allowed = {_relpath(n) for n in chg_r}
            for tick, kind, path, _info in fs.ops_since(t0):
                if kind == "touch" and path not in allowed:
                    ctx.violate("C12/over-touch", f"{path} touched by the sync of step {steps[idx][0]} although no option mapping to it changed")
            # idempotence: an immediately repeated sync adds no journal entry
            t1 = fs.tick
            fs.arm()
            sync(k)
            extra = fs.ops_since(t1)
            ctx.events += fs.opcount
            if extra:
                ctx.violate("C12/not-idempotent", f"repeated sync performed {[(e[1], e[2]) for e in extra][:6]}")
            account(t1)
        if chg_h:
            ctx.counters["probe:changed-between-completed-syncs"] += 1
        state.update(H=H, R=R, aliases=aliases, done_tick=fs.tick, clean=True)

    def run_from(start, crash_k, torn):
        """Run steps[start:], crashing the first of them at (crash_k, torn) if given."""
        tag = None
        for idx in range(start, len(steps)):
            k = nodes[idx][0]
            t0 = fs.tick
            if idx == start and crash_k is not None:
                fs.arm(crash_at=crash_k, torn=torn)
            else:
                fs.arm()
            try:
                sync(k)
                crashed = False
            except SimCrash:
                crashed = True
            ctx.events += fs.opcount
            account(t0)
            if crashed:
                # mechanism class of the interruption: while flagging (.cdep touches) or while recording (auto.conf*)
                last = fs.journal[-1][2] if (fs.journal and fs.journal[-1][0] > t0) else ""
                tag = "record-phase" if (fs.crash_kind in ("write", "truncate", "create", "replace") or "auto.conf" in last) else "touch-phase"
                state["clean"] = False
                ctx.counters["crash_points_enumerated"] += 1
                continue
            if idx == start and crash_k is not None:
                ctx.violate("C12/harness/crash-not-fired", f"crash point {crash_k} did not fire")
            completed(idx, t0, tag)

    trace = []
    crash_idx = next((i for i, s in enumerate(steps) if s[2]), None)
    if crash_idx is None:
        run_from(0, None, None)
        trace.append([j[1] for j in fs.journal])
        ctx.counters["probe:fault-free-history"] += 1
    else:
        # fault-free prefix, then snapshot, dry run of the crash step to count its operations
        for idx in range(crash_idx):
            k = nodes[idx][0]
            t0 = fs.tick
            fs.arm()
            sync(k)
            ctx.events += fs.opcount
            account(t0)
            completed(idx, t0, None)
        snap_dir = os.path.join(sb, "snap")
        if os.path.isdir(deps):
            shutil.copytree(deps, snap_dir)
        snap_state = copy.deepcopy({k: v for k, v in state.items()})
        snap_tick, snap_journal = fs.tick, len(fs.journal)

        def restore():
            shutil.rmtree(deps, ignore_errors=True)
            if os.path.isdir(snap_dir):
                shutil.copytree(snap_dir, deps)
            state.clear()
            state.update(copy.deepcopy(snap_state))
            fs.tick = snap_tick
            del fs.journal[snap_journal:]

        fs.arm()
        sync(nodes[crash_idx][0])
        n_ops = fs.opcount
        kinds = [j[1] for j in fs.journal[snap_journal:]]
        trace.append(kinds)
        for kidx in range(n_ops):
            variants = [None] + (sc["torn"] if kinds[kidx] == "write" else [])
            for torn in variants:
                restore()
                run_from(crash_idx, kidx, torn)
        # and the fault-free continuation
        restore()
        run_from(crash_idx, None, None)
        ctx.counters["probe:crash-history"] += 1
        if sc.get("rerun_same"):
            ctx.counters["probe:rerun-on-same-config"] += 1
        if any(s[1]["ver"] for s in steps):
            ctx.counters["probe:tree-version-switch"] += 1
    if rn:
        ctx.counters["probe:rename-table"] += 1
    ctx.counters.update(fs.counters)
    ctx.ev("c12", trace, [len(n[1]) for n in nodes])
    ctx.nontrivial = ctx.counters["probe:changed-between-completed-syncs"] > 0 and (crash_idx is None or ctx.counters["crash_points_enumerated"] > 0)
    ctx.key = digest((kgen.prog_shape(sc["prog"]), trace, [sorted(n[2].items()) for n in nodes], sc["crash_step"], sc["chunk"]))


def reductions(sc):
    n = len(sc["steps"])
    for i in reversed(range(n)):
        if n > 1:
            c = copy.deepcopy(sc)
            del c["steps"][i]
            if c["crash_step"] is not None:
                if c["crash_step"] == i:
                    continue
                if c["crash_step"] > i:
                    c["crash_step"] -= 1
            yield c
    for i, st in enumerate(sc["steps"]):
        for j in range(len(st["set"])):
            c = copy.deepcopy(sc)
            del c["steps"][i]["set"][j]
            yield c
    if sc.get("rerun_same"):
        c = copy.deepcopy(sc)
        c["rerun_same"] = False
        yield c
    if sc.get("renames"):
        c = copy.deepcopy(sc)
        c["renames"] = None
        yield c
    if sc.get("prog2") and not any(s["ver"] for s in sc["steps"]):
        c = copy.deepcopy(sc)
        c["prog2"] = None
        yield c
    yield from common.prog_reductions(sc)
