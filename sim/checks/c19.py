"""C19 - the deprecated-options check depends only on a file's own scope
(DESIGN.md 3, C19).

Real kconfcheck.check_deprecated_options module (shared project-root memo, lazy
per-project sets) and the real click command in-process; the directory tree,
the order/subset of files per invocation and the os.walk enumeration order are
drawn by the simulator.  Oracles: a scope reference model over the generator's
own description of the tree, and the verdict of the same file checked alone by
a cold invocation.
"""
import builtins
import copy
import os

from .. import simfs, simproc
from ..rng import digest
from . import common  # noqa: F401

ID = "C19"
LEVEL = "exploration"
BATCH = 25
PROBES_EXPECTED = ['probe:nested-project', 'probe:several-projects', 'probe:includes', 'probe:explicit-rename', 'walk_dirs']
TIERS = {"quick": {"runs": 15000, "wall": 50}, "thorough": {"runs": 250000, "wall": 840}}
RULE = ("each run draws a directory tree (IDF root, components/**, projects with CMakeLists.txt project() present / commented / indented / absent, "
        "nested and sibling projects reusing option names, orphan directories), sdkconfig.rename and sdkconfig.defaults*/sdkconfig.ci* files, a seeded "
        "os.walk order, and 1-4 invocations over the same tree with drawn subsets and orders of files, optional explicit rename files and --includes; "
        "non-trivial = >=1 file flagged and >=1 file OK and >=2 projects or a nested project; distinct = digest of (tree shape, invocations, verdicts)")
REAL = ["kconfcheck.check_deprecated_options: _prepare_deprecated_options, check_deprecated_options, _find_project_root (shared memo), "
        "_build_global_deprecated, _build_local_deprecated, extract_lhs_from_file", "kconfcheck.core.main (click command in-process, for the exit status)"]
STUB = ["directory enumeration order of os.walk (seeded shuffle through the SimFS os proxy)", "IDF_PATH environment (sandbox root)"]
ASSUMPTIONS = ["the IDF root itself is never made a project root (the one place where the documented scope rule is ambiguous)",
               "`# CONFIG_X is not set` is a comment, not an assignment", "files are passed by absolute path (the command makes them absolute itself)"]
TECHNIQUE = "deterministic simulation: seeded directory trees, file orders/subsets per invocation and os.walk enumeration order; scope reference model + cold single-file invocation as oracles"
DESIGN_REF = "DESIGN.md section 3, C19"
LEVEL_TEXT = "Seeded exploration of (tree, invocation history, enumeration order); sampling, not enumeration."

OPTS = ["CONFIG_%s" % n for n in ("FOO", "BAR", "BAZ", "QUX", "OLD_A", "OLD_B", "WIFI_X")]
CMAKE = {"project": "cmake_minimum_required(VERSION 3.16)\nproject(x)\n", "commented": "# project(x)\n", "indented": "  project (x)\n",
         "none": "add_library(x)\n", "upper": "include(foo)\nPROJECT(x)\n"}
IS_ROOT = {"project": True, "commented": False, "indented": True, "none": False, "upper": True}


def generate(r, tier):
    big = tier == "thorough"
    dirs = [""]
    for _ in range(r.randint(3, 14 if big else 10)):
        parent = r.choice(dirs)
        name = r.choice(["components", "examples", "proj", "app", "test_apps", "sub", "main", "comp"]) + str(r.randint(0, 2))
        if parent == "" and r.random() < 0.3:
            name = "components"
        sibs = [os.path.basename(x) for x in dirs if x and os.path.dirname(x) == parent and os.path.basename(x) != "components"]
        if sibs and r.random() < 0.25:
            # a directory whose name merely *starts with* a sibling's name (test_app / test_app_common): path prefix tests
            # without a separator boundary confuse the two
            name = r.choice(sibs) + r.choice(["_common", "0", "x", "-old"])
        d = os.path.join(parent, name) if parent else name
        if d not in dirs:
            dirs.append(d)
    tree = []
    for d in dirs:
        e = {"dir": d, "cmake": None, "rename": None, "defaults": {}}
        if d and not (d == "components" or d.startswith("components/")) and r.random() < 0.45:
            e["cmake"] = r.choice(["project", "project", "commented", "indented", "none", "upper"])
        if r.random() < 0.4:
            e["rename"] = r.sample(OPTS, r.randint(1, 2))
        if r.random() < 0.5:
            fn = r.choice(["sdkconfig.defaults", "sdkconfig.ci", "sdkconfig.defaults.esp32", "sdkconfig.ci.foo"])
            lines = []
            for o in r.sample(OPTS, r.randint(1, 3)):
                lines.append(("# %s is not set" % o) if r.random() < 0.2 else "%s=%s" % (o, r.choice(["y", "n", "5", '"s"'])))
            e["defaults"][fn] = lines
        tree.append(e)
    for e in tree:
        if e["dir"] and r.random() < 0.12:
            e["git"] = r.choice(["file", "dir"])
    files = [os.path.join(e["dir"], fn) for e in tree for fn in e["defaults"]]
    rfiles = [os.path.join(e["dir"], "sdkconfig.rename") for e in tree if e["rename"]]
    invs = []
    for _ in range(r.randint(1, 4)):
        inv = {"files": r.sample(files, r.randint(1, len(files))) if files else [], "renames": [], "includes": []}
        if rfiles and r.random() < 0.25:
            inv["renames"] = r.sample(rfiles, r.randint(1, min(3, len(rfiles))))
        # command-line order of defaults files and explicit rename files (adjacent rename files included)
        order = [["f", i] for i in range(len(inv["files"]))] + [["r", i] for i in range(len(inv["renames"]))]
        if r.random() < 0.6:
            r.shuffle(order)
        inv["order"] = order
        if r.random() < 0.2:
            inv["includes"] = [r.choice(dirs)]
        invs.append(inv)
    for inv in invs:
        # --includes may be given relative to the directory the tool is started in (say, from inside a project)
        if inv["includes"] and r.random() < 0.6:
            inc = inv["includes"][0]
            inv["cwd"] = r.choice([inc, os.path.dirname(inc), os.path.dirname(os.path.dirname(inc)), ""])
    return {"tree": tree, "invocations": invs, "dir_salt": r.getrandbits(32), "hash_salt": r.getrandbits(32)}


def summarize(sc):
    return sc


def _nearest(d, roots):
    while True:
        if d in roots:
            return d
        if d == "":
            return None
        d = os.path.dirname(d)


def _under(d, top):
    return top == "" or d == top or d.startswith(top + "/")


def model(sc, inv):
    """file -> expected verdict (True = OK) for one invocation, from the generator's own description."""
    tree = sc["tree"]
    roots = {e["dir"] for e in tree if e["cmake"] and IS_ROOT[e["cmake"]]}
    renames = {e["dir"]: set(e["rename"]) for e in tree if e["rename"]}
    assigned = {}
    for e in tree:
        for fn, lines in e["defaults"].items():
            assigned[os.path.join(e["dir"], fn)] = {ln.split("=")[0] for ln in lines if not ln.startswith("#")}
    glob = set()
    for d, o in renames.items():
        if d == "" or d == "components" or d.startswith("components/"):
            glob |= o
    for rf in inv["renames"]:
        glob |= renames[os.path.dirname(rf)]
    checked = list(inv["files"])
    for inc in inv["includes"]:
        for d, o in renames.items():
            if _under(d, inc):
                glob |= o
        for f in assigned:
            if _under(os.path.dirname(f), inc):
                checked.append(f)
    out = {}
    for f in checked:
        p = _nearest(os.path.dirname(f), roots)
        eff = set(glob)
        if p is not None:
            for rd, o in renames.items():
                if _under(rd, p) and _nearest(rd, roots) == p:
                    eff |= o
        out[f] = not (eff & assigned[f])
    return out, checked


def build(sc, sb):
    root = os.path.join(sb, "idf")
    for e in sc["tree"]:
        full = os.path.join(root, e["dir"])
        os.makedirs(full, exist_ok=True)
        if e["cmake"]:
            with builtins.open(os.path.join(full, "CMakeLists.txt"), "w") as f:
                f.write(CMAKE[e["cmake"]])
        if e["rename"]:
            with builtins.open(os.path.join(full, "sdkconfig.rename"), "w") as f:
                f.write("# c\n" + "".join("%s    CONFIG_NEW_%d\n" % (o, i) for i, o in enumerate(e["rename"])))
        for fn, lines in e["defaults"].items():
            with builtins.open(os.path.join(full, fn), "w") as f:
                f.write("".join(ln + "\n" for ln in lines))
        if e.get("git") == "file":
            with builtins.open(os.path.join(full, ".git"), "w") as f:
                f.write("gitdir: ../.git/modules/x\n")  # a submodule / vendored checkout: irrelevant to the scope rule
        elif e.get("git") == "dir":
            os.makedirs(os.path.join(full, ".git"), exist_ok=True)
    return root


def execute(sc, ctx):
    """The invocations may change the working directory (relative --includes): always put it back."""
    try:
        base = os.getcwd()
    except OSError:
        base = os.path.dirname(os.path.dirname(os.path.dirname(os.path.abspath(__file__))))
        os.chdir(base)
    try:
        return _execute(sc, ctx)
    finally:
        os.chdir(base)


def _execute(sc, ctx):
    import kconfcheck.check_deprecated_options as cdo
    import kconfcheck.core as kc

    sb = ctx.fresh_dir()
    root = build(sc, sb)
    fs = simfs.SimFS(sb, dir_salt=sc["dir_salt"])
    roots = {e["dir"] for e in sc["tree"] if e["cmake"] and IS_ROOT[e["cmake"]]}
    verdicts = {}
    trace = []
    flagged_any = ok_any = False
    base_cwd = os.getcwd()
    with simproc.env(IDF_PATH=root), simfs.Installed(fs, [cdo], copyfile=False), simproc.quiet(stdout=True):
        for ii, inv in enumerate(sc["invocations"]):
            exp, checked = model(sc, inv)
            order = inv.get("order") or ([["f", i] for i in range(len(inv["files"]))] + [["r", i] for i in range(len(inv["renames"]))])
            args = [os.path.join(root, (inv["files"] if kind == "f" else inv["renames"])[i]) for kind, i in order
                    if i < len(inv["files"] if kind == "f" else inv["renames"])]
            incs = [os.path.join(root, d) for d in inv["includes"]]
            os.chdir(base_cwd)
            if inv.get("cwd") is not None and os.path.isdir(os.path.join(root, inv["cwd"])):
                os.chdir(os.path.join(root, inv["cwd"]))
                incs = [os.path.relpath(p) for p in incs]
                ctx.counters["probe:relative-includes"] += 1
            simproc.next_process()  # every invocation is a tool run of its own (own hash seed: string-set iteration order)
            try:
                fl, g, l, ign, cache, absidf = cdo._prepare_deprecated_options(incs, [], list(args))
            except Exception as e:
                ctx.violate(f"C19/raise/{type(e).__name__}/_prepare_deprecated_options", f"invocation {ii}: {e!r}")
                continue
            got = {}
            for full in fl:
                try:
                    v = cdo.check_deprecated_options(full, g, l, ign, cache, absidf)
                except Exception as e:
                    ctx.violate(f"C19/raise/{type(e).__name__}/check_deprecated_options", f"invocation {ii} file {full}: {e!r}")
                    continue
                rel = os.path.relpath(os.path.abspath(full), root)
                got.setdefault(rel, set()).add(v)
                verdicts.setdefault(rel, set()).add(v)
                ctx.events += 1
            for rel, vs in sorted(got.items()):
                if rel not in exp:
                    ctx.violate("C19/unexpected-file-checked", f"invocation {ii}: {rel} was checked but the model does not expect it")
                    continue
                for v in vs:
                    if v != exp[rel]:
                        p = _nearest(os.path.dirname(rel), roots)
                        kind = "false-flag" if v is False else "missed-flag"
                        scope = "in-project" if p is not None else "no-project"
                        ctx.violate(f"C19/model-mismatch/{kind}/{scope}",
                                    f"invocation {ii} (files {inv['files']}, renames {inv['renames']}, includes {inv['includes']}): {rel} verdict {v}, "
                                    f"scope model says {exp[rel]} (nearest project {p!r})")
                flagged_any = flagged_any or (False in vs)
                ok_any = ok_any or (True in vs)
            missing = set(exp) - set(got)
            if missing:
                ctx.violate("C19/file-not-checked", f"invocation {ii}: {sorted(missing)} expected to be checked")
            # the real command, for the exit status
            argv = ["--check", "deprecated"] + args
            for d in incs:
                argv += ["--includes", d]
            status = 0
            try:
                kc.main.main(args=argv, standalone_mode=False)
            except SystemExit as e:
                status = e.code if isinstance(e.code, int) else 1
            except Exception as e:
                ctx.violate(f"C19/raise/{type(e).__name__}/main", f"invocation {ii}: the command raised {e!r}")
                status = None
            want = 1 if any(v is False for v in exp.values()) else 0
            if status is not None and status != want:
                ctx.violate("C19/exit-status", f"invocation {ii}: exit status {status}, expected {want} (verdicts {sorted(exp.items())})")
            trace.append((ii, sorted((k, sorted(map(str, v))) for k, v in got.items()), status))
        os.chdir(base_cwd)
        # cold single-file invocations
        for e in sc["tree"]:
            for fn in e["defaults"]:
                rel = os.path.join(e["dir"], fn)
                full = os.path.join(root, rel)
                simproc.next_process()
                try:
                    fl, g, l, ign, cache, absidf = cdo._prepare_deprecated_options([], [], [full])
                    v = cdo.check_deprecated_options(full, g, l, ign, cache, absidf)
                except Exception as ex:
                    ctx.violate(f"C19/raise/{type(ex).__name__}/cold", f"cold check of {rel}: {ex!r}")
                    continue
                # compare only with invocations that add no extra global scope
                plain = set()
                for ii, inv in enumerate(sc["invocations"]):
                    if not inv["renames"] and not inv["includes"] and rel in inv["files"]:
                        plain.add(ii)
                if plain and verdicts.get(rel) and any(x != v for x in verdicts[rel]) and all(
                        not i["renames"] and not i["includes"] for i in sc["invocations"] if rel in model(sc, i)[1]):
                    ctx.violate("C19/history-dependent", f"{rel}: cold single-file verdict {v}, verdicts inside larger invocations {verdicts[rel]}")
    nested = any(_nearest(os.path.dirname(r_), roots - {r_}) is not None for r_ in roots if r_)
    if nested:
        ctx.counters["probe:nested-project"] += 1
    if len(roots) >= 2:
        ctx.counters["probe:several-projects"] += 1
    if any(i["includes"] for i in sc["invocations"]):
        ctx.counters["probe:includes"] += 1
    if any(i["renames"] for i in sc["invocations"]):
        ctx.counters["probe:explicit-rename"] += 1
    ctx.counters.update(fs.counters)
    ctx.ev("c19", trace)
    ctx.nontrivial = flagged_any and ok_any and (len(roots) >= 2 or nested)
    ctx.key = digest(([(e["dir"], e["cmake"], bool(e["rename"]), sorted(e["defaults"])) for e in sc["tree"]], trace))


def reductions(sc):
    for i in reversed(range(len(sc["invocations"]))):
        if len(sc["invocations"]) > 1:
            c = copy.deepcopy(sc)
            del c["invocations"][i]
            yield c
    for i, inv in enumerate(sc["invocations"]):
        for key in ("files", "renames", "includes"):
            for j in range(len(inv[key])):
                if key == "files" and len(inv["files"]) == 1:
                    continue
                c = copy.deepcopy(sc)
                del c["invocations"][i][key][j]
                c["invocations"][i].pop("order", None)
                yield c
    used = {f for inv in sc["invocations"] for f in inv["files"] + inv["renames"]}
    for i, e in enumerate(sc["tree"]):
        if e["rename"] and os.path.join(e["dir"], "sdkconfig.rename") not in used:
            c = copy.deepcopy(sc)
            c["tree"][i]["rename"] = None
            yield c
        if e["cmake"]:
            c = copy.deepcopy(sc)
            c["tree"][i]["cmake"] = None
            yield c
        for fn in list(e["defaults"]):
            if os.path.join(e["dir"], fn) not in used:
                c = copy.deepcopy(sc)
                del c["tree"][i]["defaults"][fn]
                yield c
            elif len(e["defaults"][fn]) > 1:
                for j in range(len(e["defaults"][fn])):
                    c = copy.deepcopy(sc)
                    del c["tree"][i]["defaults"][fn][j]
                    yield c
