"""C02 - saving and reloading a configuration is a fixpoint (DESIGN.md 4, C02).

Restart at an arbitrary point of an admissible history: save the node, boot a
fresh node on the same program and rename table, load the file; values equal,
no diagnostics, second write byte-identical.  With a rename table both the
plain file and the one carrying the deprecated-options block are restarted from.
"""
import copy
import os

from .. import kgen, ops, simproc
from ..rng import digest
from . import common

core = simproc.core

ID = "C02"
LEVEL = "exploration"
BATCH = 40
PROBES_EXPECTED = ['probe:user-entries-in-file', 'probe:restart-with-deprecated-block', 'probe:default-injected']
TIERS = {"quick": {"runs": 9000, "wall": 50}, "thorough": {"runs": 400000, "wall": 840}}
RULE = ("each run draws a program (optionally a rename table), knobs (parser, policy, set-order salt) and an admissible history of 0-25 "
        "set/unset/reset/load/merge/restart operations (loads only of files the tool wrote for the same program or of hand-written "
        "marker-free files incl. deprecated names, duplicates, several choice members); at the end the node is saved (plain and, with a rename "
        "table, with the deprecated block), a fresh node loads each file; non-trivial = the saved file contains >=1 user-set (unmarked) entry "
        "and the configuration differs from all-defaults; distinct = digest of (program shape, saved bytes)")
REAL = ["esp_kconfiglib.core: Kconfig._config_contents/write_config, Symbol.config_string/has_active_default_value, Kconfig._load_config, "
        "_escape/unescape, Symbol/Choice.resolve_defaults", "esp_kconfiglib.report (DefaultValuesArea, MultipleAssignmentArea)",
        "esp_kconfiglib.deprecated (rename table, deprecated block)"]
STUB = ["no faults; the simulator contributes the history and the restart (fresh process seeing only the file)"]
ASSUMPTIONS = ["each simulated process has its own report object (the shipped singleton is reset per node, as separate tool runs have separate interpreters)",
               "records about promptless options (DefaultValuesArea.changed_values_promptless, only printed in verbose mode) are counted under their own signature"]
TECHNIQUE = "deterministic simulation: seeded admissible histories with a process restart on the saved file; value equality, empty diagnostics and byte-identical re-save against the pre-restart node"
DESIGN_REF = "DESIGN.md section 4, C02"
LEVEL_TEXT = ("Seeded exploration of admissible operation histories over generated programs with a restart (fresh node, only the file survives) "
              "at the end; sampling, not enumeration.")


def generate(r, tier):
    big = tier == "thorough"
    # (in a tenth of the programs some numeric options have no default at all: legal, they are written as `CONFIG_X=`)
    prog = kgen.gen_program(r, hi=20 if big else 12, p_nodefault=0.25 if r.random() < 0.1 else 0.0)
    sc = {"prog": prog, "parser": kgen.pick_parser(r, prog, 0.05), "hash_salt": r.getrandbits(32),
          "policy": r.choice([None, "sdkconfig", "kconfig"])}
    olds = []
    sc["renames"] = None
    if r.random() < 0.35:
        sc["renames"], olds = kgen.rename_table(r, prog)
    nodef = {c["name"] for c in kgen.walk(prog["items"]) if c["k"] == "config" and c["type"] in kgen.RANGES and not c["defaults"]}
    # deprecated aliases of such options are left out of the hand-written files as well
    olds = [o for o in olds if not any(ln.split()[0] == "CONFIG_" + o and ln.split()[1].lstrip("!")[len("CONFIG_"):] in nodef
                                        for ln in (sc["renames"] or "").splitlines() if len(ln.split()) == 2)]
    sc["hand"] = [kgen.handwritten(r, prog, olds=olds, sane=r.random() < 0.7, avoid=nodef) for _ in range(r.randint(0, 2))]
    # numeric options without any default are never given a user value here: an out-of-range one would leave them with no
    # value at all and an unmarked `CONFIG_X=` line, which cannot be loaded back (outside the statement's well-formed space)
    sc["ops"] = ops.gen_history(r, prog, r.randint(0, 25), weights={"read": 6, "edge": 10, "save": 8, "load": 8, "restart": 5}, hand_n=len(sc["hand"]),
                                sane=0.7, avoid=nodef)
    return sc


def summarize(sc):
    s = {k: v for k, v in sc.items() if k != "prog"}
    s["kconfig"] = kgen.render(sc["prog"])
    return s


def _mechanism(k, names):
    """Mechanism class for a value/bytes mismatch (DESIGN.md 2.9)."""
    inj = set(ops.injected(k))
    for n in names:
        s = k.syms.get(n)
        if s is None:
            continue
        if n in inj or (s.choice is not None and any(c is s.choice and ("<choice %d>" % i) in inj for i, c in enumerate(k.unique_choices))):
            return "injected-default"
    for n in names:
        s = k.syms.get(n)
        if s is None:
            continue
        if s.choice is not None:
            c = s.choice
            if any(m._user_value == 0 and c.selection is m for m in c.syms):
                return "choice/member-user-n-while-selected"
            if c._user_selection is not None and not c._user_selection.visibility:
                return "choice/user-pick-invisible"
            return "choice"
    for n in names:
        s = k.syms.get(n)
        if s is not None:
            return core.TYPE_TO_STR[s.orig_type]
    return "other"


def execute(sc, ctx):
    sb = ctx.fresh_dir()
    text = kgen.render(sc["prog"])
    node = ops.KNode(sb, text, parser=sc["parser"], policy=sc["policy"], renames_text=sc["renames"])
    done = ops.run_history(node, sc["ops"], sc["hand"], ctx, None)
    k = node.k
    # schedule dimension: in half of the runs the first write happens "cold" (before the harness reads any value), see C10
    cold = bool(sc["hash_salt"] & 2)
    v1 = None if cold else ops.values(k)
    ctx.counters["probe:cold-write" if cold else "probe:warm-write"] += 1
    inj = ops.injected(k)
    stratum = "injection-prone" if inj else "injection-free"
    if inj:
        ctx.counters["probe:default-injected"] += 1
    variants = [False] + ([True] if sc["renames"] else [])
    key = []
    for dep in variants:
        # the file is saved over whatever an earlier `save` of the history left in that slot (possibly a longer text,
        # e.g. one with the deprecated block): what is judged is the file on disk after the save
        f = node.slot(int(dep))
        try:
            with simproc.quiet():
                k.write_config(f, write_deprecated=dep, save_old=False)
        except Exception as e:
            ctx.counters["op_raised:write_config/" + type(e).__name__] += 1
            return
        b1 = open(f, encoding="utf-8", errors="surrogateescape").read()
        key.append(b1)
        if v1 is None:
            v1 = ops.values(k)
        n2 = node.twin()
        k2 = n2.k
        try:
            with simproc.quiet():
                k2.load_config(f)
        except Exception as e:
            import traceback

            fn = traceback.extract_tb(e.__traceback__)[-1].name
            ctx.violate(f"C02/reload-raised/{type(e).__name__}/{fn}", f"loading the file the tool just wrote raised {type(e).__name__}: {e}")
            continue
        tag = "deprecated-block" if dep else "plain"
        if dep:
            ctx.counters["probe:restart-with-deprecated-block"] += 1
        v2 = ops.values(k2)
        if v1 != v2:
            alld = [n for n in v1 if v1[n] != v2.get(n)]
            d = [(n, v1[n], v2.get(n)) for n in alld][:4]
            ctx.violate(f"C02/values-differ/{_mechanism(k, alld)}/{stratum}",
                        f"[{tag}] values after reload differ from the saved node: {d}")
        with simproc.quiet():
            b2 = k2._config_contents(None, write_deprecated=dep)
        if b1 != b2:
            l1, l2 = b1.splitlines(), b2.splitlines()
            changed = [(a, b) for a, b in zip(l1, l2) if a != b][:3]
            names = []
            for i, (a, b) in enumerate(zip(l1 + [""] * len(l2), l2 + [""] * len(l1))):
                if a != b:
                    for ln in (a, b, (l1[i + 1] if i + 1 < len(l1) else ""), (l2[i + 1] if i + 1 < len(l2) else "")):
                        if "CONFIG_" in ln:
                            names.append(ln.split("CONFIG_")[1].split("=")[0].split(" ")[0])
            marker_only = [x for x in l1 if x.strip() != "# default:"] == [x for x in l2 if x.strip() != "# default:"]
            ctx.violate(f"C02/bytes-differ/{'marker-only' if marker_only else 'content'}/{_mechanism(k, names)}/{stratum}",
                        f"[{tag}] second write is not byte-identical (len {len(b1)} vs {len(b2)}); first differing lines {changed}")
        rep = k2.report
        dv = rep.area_to_instance[core.DefaultValuesArea]
        ma = rep.area_to_instance[core.MultipleAssignmentArea]
        if dv.changed_defaults or dv.changed_choices:
            recs = sorted(dv.changed_defaults)[:3] + sorted(dv.changed_choices)[:3]
            kind = "choice" if dv.changed_choices and not dv.changed_defaults else "symbol"
            ctx.violate(f"C02/diagnostics/default-mismatch/{kind}/{stratum}", f"[{tag}] reload reports default-value mismatches: {recs}")
        if dv.changed_values_promptless:
            ctx.violate(f"C02/diagnostics/promptless-mismatch/{stratum}",
                        f"[{tag}] reload records promptless value mismatches: {sorted(dv.changed_values_promptless)[:3]}")
        if ma.multiple_assignments_sym or ma.multiple_assignments_choice:
            what = "choice" if ma.multiple_assignments_choice else "symbol"
            ctx.violate(f"C02/diagnostics/multiple-assignment/{what}",
                        f"[{tag}] reload reports multiple assignments: syms {[(s.name, v) for s, v in ma.multiple_assignments_sym.items()][:3]} "
                        f"choices {[(c.name, v) for c, v in ma.multiple_assignments_choice.items()][:3]}")
        if k2.missing_syms:
            ctx.violate("C02/diagnostics/unknown-symbol", f"[{tag}] reload reports unknown symbols {k2.missing_syms[:4]}")
    unmarked = sum(1 for a, b in zip([""] + key[0].splitlines(), key[0].splitlines())
                   if b.startswith(("CONFIG_", "# CONFIG_")) and a.strip() != "# default:")
    if unmarked:
        ctx.counters["probe:user-entries-in-file"] += 1
    ctx.ev("c02", done, [digest(b) for b in key])
    ctx.nontrivial = unmarked > 0
    ctx.key = digest((kgen.prog_shape(sc["prog"]), key))


def reductions(sc):
    yield from common.list_reductions(sc, "ops")
    if sc.get("renames"):
        c = copy.deepcopy(sc)
        c["renames"] = None
        yield c
    for i in range(len(sc.get("hand", []))):
        lines = sc["hand"][i].splitlines(True)
        for j in range(len(lines)):
            c = copy.deepcopy(sc)
            c["hand"][i] = "".join(lines[:j] + lines[j + 1:])
            yield c
    if sc.get("policy"):
        c = copy.deepcopy(sc)
        c["policy"] = None
        yield c
    yield from common.prog_reductions(sc)
