"""C05 - a choice always has exactly one selected member (DESIGN.md 4, C05).

A monitor evaluated after *every* operation of a seeded history (assignments to
members y/n, to the options their conditions mention, resets, unsets, loads of
hand-written files assigning several members, tool-written files, restarts).
"""
import copy
import io
import os
import re

from .. import kgen, ops, simproc
from ..rng import digest
from . import common

core = simproc.core

ID = "C05"
LEVEL = "exploration"
BATCH = 50
PROBES_EXPECTED = ['probe:pick-known-to-model', 'probe:selection-changed', 'probe:load-handwritten', 'probe:user-pick-invisible', 'probe:checkpoint']
TIERS = {"quick": {"runs": 12000, "wall": 50}, "thorough": {"runs": 500000, "wall": 840}}
RULE = ("each run draws a program with >=1 choice (named/unnamed, conditional members and defaults, `if` inside the choice), knobs (parser, "
        "policy, set-order salt) and a history of 3-30 operations biased towards member assignments and the options member/default conditions "
        "mention; the monitor runs after every operation; non-trivial = the selection of some choice changed at least once during the history; "
        "distinct = digest of (program shape, sequence of selection vectors)")
REAL = ["esp_kconfiglib.core: Choice._selection/_selection_from_defaults, Symbol.bool_value (choice-member branch), Symbol.set_value/unset_value, "
        "Choice.unset_value, _restore_default, Kconfig.load_config (deferred choice handling), write_autoconf contents",
        "kconfgen.core.write_cmake / get_json_values (checkpoints)"]
STUB = ["no faults: this property has no fault dimension; the simulator contributes the history (schedule of writes/loads/restarts) and the set-iteration order"]
ASSUMPTIONS = ["'visible member' = member whose prompt visibility is non-n; 'first default whose condition holds' follows Choice.defaults order",
               "the rule is checked against the node's own visibility/condition evaluation (not an independent evaluator - that is C01, not applicable)"]
TECHNIQUE = "deterministic simulation: seeded operation/load/restart histories with a step monitor (exactly-one / none invariant and the documented selection rule) and output cross-checks at checkpoints"
DESIGN_REF = "DESIGN.md section 4, C05"
LEVEL_TEXT = ("Seeded exploration of operation histories over generated programs; the invariant and the selection rule are evaluated on the live "
              "node after every operation, the header/CMake/JSON agreement at checkpoints. Sampling, not enumeration.")


def generate(r, tier):
    big = tier == "thorough"
    for _ in range(20):
        prog = kgen.gen_program(r, hi=18 if big else 11, feats=[f for f in kgen.ALL_FEATS if f == "choice" or r.random() < 0.7] +
                                (["untyped_member"] if r.random() < 0.3 else []))
        if any(it["k"] == "choice" for it in kgen.walk(prog["items"])):
            break
    sc = {"prog": prog, "parser": kgen.pick_parser(r, prog, 0.06), "hash_salt": r.getrandbits(32),
          "policy": r.choice([None, "sdkconfig", "kconfig"])}
    tab = kgen.sym_table(prog)
    members = [n for n in tab if tab[n]["choice"]]
    # hand-written files assigning several members of one choice
    hand = []
    for _ in range(r.randint(1, 3)):
        lines = []
        for _ in range(r.randint(1, 6)):
            if members and r.random() < 0.7:
                m = r.choice(members)
                lines.append(r.choice(["CONFIG_%s=y\n", "CONFIG_%s=y\n", "# CONFIG_%s is not set\n", "CONFIG_%s=n\n"]) % m)
            else:
                lines.append(kgen.handwritten(r, prog, maxn=1))
        hand.append("".join(lines))
    sc["hand"] = hand
    sc["ops"] = ops.gen_history(r, prog, r.randint(3, 30), weights={"member_bias": 0.55, "load_hand": 6, "set": 45, "cunset": 5, "dance": 9}, hand_n=len(hand))
    sc["checkpoints"] = sorted(r.sample(range(len(sc["ops"]) + 1), min(len(sc["ops"]) + 1, r.randint(1, 3))))
    return sc


def summarize(sc):
    s = {k: v for k, v in sc.items() if k != "prog"}
    s["kconfig"] = kgen.render(sc["prog"])
    return s


UNKNOWN = ops.UNKNOWN
PickModel = ops.PickModel


def expected_selection(c, pick=UNKNOWN, defaults=None):
    """The property's rule, evaluated with the node's own visibility/conditions; `pick` is the model's
    knowledge of the user's pick (UNKNOWN: take the node's record); `defaults`: the choice's defaults as parsed from
    Kconfig, used instead of the live list when no stored default selection can legitimately be in force."""
    user = c._user_selection if pick is UNKNOWN else (c.kconfig.syms[pick] if pick else None)
    if user is not None and user.visibility:
        return user
    for s, cond in (c.defaults if defaults is None else defaults):
        if core.expr_value(cond) and s.visibility:
            return s
    for s in c.syms:
        if s.visibility:
            return s
    return None


def monitor(k, ctx, where, model=None, kconfig_defaults_only=False):
    sel_vec = []
    boot = simproc.BOOT_CHOICE_DEFAULTS.get(id(k)) if kconfig_defaults_only else None
    with simproc.quiet():
        for ci, c in enumerate(k.unique_choices):
            members = list(dict.fromkeys(c.syms))  # a member re-declared at a second site of the choice is listed twice
            ys = [s for s in members if s.str_value == "y"]
            vis = c.visibility
            vm = [s for s in members if s.visibility]
            sel_vec.append(ys[0].name if len(ys) == 1 else (None if not ys else "+".join(s.name for s in ys)))
            if vis and vm:
                if len(ys) != 1:
                    ctx.violate(f"C05/not-exactly-one/{'none' if not ys else 'several'}",
                                f"{where}: visible choice #{ci} with visible members {[s.name for s in vm]} has y members {[s.name for s in ys]}")
                    continue
                pick = model.pick.get(ci, UNKNOWN) if model is not None else UNKNOWN
                exp = expected_selection(c, pick, boot[1][ci] if (boot and boot[0] is k and ci < len(boot[1])) else None)
                if pick is not UNKNOWN:
                    ctx.counters["probe:pick-known-to-model"] += 1
                if ys[0] is not exp:
                    why = ("stale-user-pick" if (pick is None and c._user_selection is ys[0]) else
                           "user-pick-visible" if (c._user_selection is not None and c._user_selection.visibility) else
                           "default" if any(core.expr_value(cond) and s.visibility for s, cond in c.defaults) else "first-visible")
                    ctx.violate(f"C05/wrong-member/{why}", f"{where}: choice #{ci}: y member {ys[0].name}, rule gives {exp.name if exp else None}")
                others = [s.name for s in members if s is not ys[0] and s.str_value != "n"]
                if others:
                    ctx.violate("C05/other-member-not-n", f"{where}: choice #{ci}: {others} are not n")
                if c.selection is not ys[0]:
                    ctx.violate("C05/selection-attr-disagrees", f"{where}: Choice.selection is {c.selection.name if c.selection else None}, y member {ys[0].name}")
            elif not vis and ys:
                ctx.violate("C05/invisible-choice-has-y", f"{where}: invisible choice #{ci} has y members {[s.name for s in ys]}")
            elif vis and not vm and ys:
                ctx.violate("C05/no-visible-member-but-y", f"{where}: choice #{ci} has no visible member but {[s.name for s in ys]} is y")
    return sel_vec


def checkpoint(k, ctx, where):
    """Only the selected member is defined in header, CMake and JSON."""
    import kconfgen.core as kg

    try:
        with simproc.quiet():
            hdr = k._autoconf_contents("")
            js = kg.get_json_values(k)
            # write_cmake through a throw-away file in the sandbox
            p = os.path.join(ctx.workdir, "out.cmake")
            kg.write_cmake(k, p)
            cm = open(p, encoding="utf-8", errors="surrogateescape").read()
    except Exception as e:
        # a generator crashing on an unrelated option is C06's subject (not applicable), not C05's
        ctx.counters["op_raised:checkpoint/" + type(e).__name__] += 1
        return
    for ci, c in enumerate(k.unique_choices):
        for s in c.syms:
            y = s.str_value == "y"
            in_h = re.search(r"^#define CONFIG_%s " % s.name, hdr, re.M) is not None
            in_j = js.get(s.name) is True
            m = re.search(r'^set\(CONFIG_%s "(.*)"\)' % s.name, cm, re.M)
            in_c = bool(m and m.group(1) != "")
            if (in_h, in_j, in_c) != (y, y, y):
                ctx.violate("C05/outputs-disagree", f"{where}: member {s.name} value {s.str_value}: header={in_h} json={in_j} cmake={in_c}")
    ctx.counters["probe:checkpoint"] += 1


def execute(sc, ctx):
    sb = ctx.fresh_dir()
    node = ops.KNode(sb, kgen.render(sc["prog"]), parser=sc["parser"], policy=sc["policy"])
    model = PickModel(node.k)
    vecs = [monitor(node.k, ctx, "initial", model)]
    cps = set(sc.get("checkpoints", []))
    if 0 in cps:
        checkpoint(node.k, ctx, "initial")

    # Read schedule: the monitor evaluates every member of every choice, which fills all caches.  In "sparse" runs it only
    # looks every k-th operation (and at the end), so that between two looks the caches hold exactly what the history's
    # own reads put there - e.g. a choice whose selection was read while no member value ever was.
    sparse = bool(sc.get("sparse", sc.get("hash_salt", 0) & 4))
    every = 3 + (sc.get("hash_salt", 0) >> 3) % 4
    ctx.counters["probe:sparse-monitor" if sparse else "probe:full-monitor"] += 1
    last = len(sc["ops"]) - 1

    # Can a stored default selection (policy sdkconfig) legitimately be in force?  Not in a fresh node, and not after a
    # replacing load of a hand-written file (no default markers): "the first default whose condition holds" is Kconfig's then.
    inj = {"possible": False}

    def after(i, op):
        model.apply(op, sc["hand"])
        if op[0] in ("load", "restart", "load_bad") or (op[0] == "load_hand" and not op[2]):
            inj["possible"] = True
        elif op[0] == "load_hand" and op[2] and not any("# default:" in h for h in sc["hand"]):
            inj["possible"] = False
        if sparse and i != last and (i + 1) % every and (i + 1) not in cps:
            return
        vecs.append(monitor(node.k, ctx, f"after op {i} {op[:3]}", model, kconfig_defaults_only=not inj["possible"]))
        if op[0] == "load_hand":
            ctx.counters["probe:load-handwritten"] += 1
        if (i + 1) in cps:
            checkpoint(node.k, ctx, f"after op {i}")

    done = ops.run_history(node, sc["ops"], sc["hand"], ctx, after)
    changes = sum(1 for a, b in zip(vecs, vecs[1:]) if a != b)
    if any(c._user_selection is not None and not c._user_selection.visibility for c in node.k.unique_choices):
        ctx.counters["probe:user-pick-invisible"] += 1
    if changes:
        ctx.counters["probe:selection-changed"] += 1
    ctx.ev("c05", done, vecs)
    ctx.nontrivial = changes > 0
    ctx.key = digest((kgen.prog_shape(sc["prog"]), [[x is not None for x in v] for v in vecs], changes, [o[0] for o in sc["ops"]]))


def reductions(sc):
    yield from common.list_reductions(sc, "ops")
    if sc.get("policy"):
        c = copy.deepcopy(sc)
        c["policy"] = None
        yield c
    yield from common.prog_reductions(sc)
