"""C16 - menuconfig never drops unsaved edits and knows when it is clean
(DESIGN.md 3, C16).  Same machine as C17; the monitor compares, after every UI
action, `needs_save()` with the bytes on the simulated disk.
"""
import copy
import traceback

from .. import kgen, ops, simproc, uimachine
from ..rng import digest
from . import common

core = simproc.core

ID = "C16"
LEVEL = "exploration"
BATCH = 25
PROBES_EXPECTED = ['probe:start-on-tool-written-file', 'probe:restart-on-own-save', 'probe:quit-without-asking', 'probe:session-ended']
TIERS = {"quick": {"runs": 5000, "wall": 50}, "thorough": {"runs": 200000, "wall": 840}}
RULE = ("each run draws a program (optionally an older version and a rename table), an initial sdkconfig class (absent / written by the same tool flow "
        "for the same program / for an older version / with a deprecated block / hand-edited with unknown, duplicate, deprecated entries) and a history of "
        "1-40 UI actions with saves interleaved (toggle, typed values, choice selection, reset of options and menus, load of other files, quit y/n/cancel); "
        "a session that ends is followed by a new session on the same disk; non-trivial = >=1 edit changed a value and >=1 save happened; "
        "distinct = digest of (program shape, action keys, per-action needs_save, final disk bytes)")
REAL = ["esp_menuconfig.model.MenuConfigState.needs_save/load_config/try_load/reload_sdkconfig_file and all edit methods",
        "esp_menuconfig.app.MenuConfigApp quit/save/load handlers (unbound, fake self)", "esp_menuconfig.idf_headers", "esp_menuconfig.menuconfig(headless=True)",
        "esp_kconfiglib.core baseline bookkeeping (_sdkconfig_value/_loaded_as_default) in _load_config and Symbol.set_value, write_config"]
STUB = ["Textual runtime (see C17)", "the disk is a plain sandbox directory; one I/O fault is injected: [S] on a read-only tree (EACCES on the rename to .old and on the open for writing)"]
ASSUMPTIONS = ["'what saving would write' = Kconfig._config_contents(idf_sdkconfig_header(), write_deprecated=False), exactly what MenuConfigApp._do_save writes",
               "a missing file is compared as the empty configuration: it matches iff a save would write no assignment line",
               "the 'loading a file the tool itself wrote' clause is applied to the session's main file (session start / restart), not to files loaded with [O]"]
TECHNIQUE = "deterministic simulation: the real menuconfig model and app handlers driven by a seeded simulated user with saves, loads, quits and session restarts on a sandbox disk; needs_save() vs. disk bytes after every action"
DESIGN_REF = "DESIGN.md section 3, C16 (and 2.6 SimUI)"
LEVEL_TEXT = "Seeded exploration of UI action histories with saves and session restarts; byte-level oracle after every action; sampling, not enumeration."


def generate(r, tier):
    big = tier == "thorough"
    prog = kgen.gen_menu_program(r) if r.random() < 0.1 else kgen.gen_program(r, lo=3, hi=16 if big else 11)
    sc = {"prog": prog, "parser": kgen.pick_parser(r, prog, 0.04), "hash_salt": r.getrandbits(32), "policy": r.choice([None, None, "kconfig", "sdkconfig"])}
    olds = []
    sc["renames"] = None
    if r.random() < 0.3:
        sc["renames"], olds = kgen.rename_table(r, prog)
    sc["hand"] = [kgen.handwritten(r, prog, olds=olds, sane=r.random() < 0.7) for _ in range(r.randint(1, 2))]
    sc["tool_hist"] = [ops.gen_history(r, prog, r.randint(0, 8), weights={"read": 0, "save": 0, "load": 0, "restart": 0, "load_hand": 0}, sane=0.9)
                       for _ in range(r.randint(1, 2))]
    sc["initial"] = r.choice(["absent", "tool-same", "tool-same", "tool-same", "tool-old", "tool-deprecated", "hand", "tool-extra"])
    sc["extra_lines"] = r.choice(["CONFIG_GONE_OPTION=y\n", "CONFIG_GONE_LVL=7\n# CONFIG_GONE_B is not set\n", 'CONFIG_GONE_NAME="x"\n'])
    sc["prog_old"] = None
    if sc["initial"] == "tool-old":
        # the current program is the evolved one
        sc["prog_old"] = prog
        sc["prog"] = kgen.evolve(r, prog)
        if not kgen.v2_ok(sc["prog"]):
            sc["parser"] = 1
    sc["actions"] = uimachine.gen_actions(r, sc["prog"], r.randint(1, 40), hand_n=len(sc["hand"]), tool_n=len(sc["tool_hist"]),
                                          weights={"s": 10, "q": 6, "o": 6, "nav": 24, "s!": 3})
    return sc


def summarize(sc):
    s = {k: v for k, v in sc.items() if k not in ("prog", "prog_old")}
    s["kconfig"] = kgen.render(sc["prog"])
    s["actions"] = [(a["key"], len(a["tokens"])) for a in sc["actions"]]
    return s


def would_write(state):
    from esp_menuconfig import idf_headers

    with simproc.quiet():
        return state.kconf._config_contents(idf_headers.idf_sdkconfig_header(), write_deprecated=False)


def has_assignment(text):
    return any(ln.startswith(("CONFIG_", "# CONFIG_")) for ln in text.splitlines())


class Monitor:
    def __init__(self, ctx, machine, sparse=False):
        self.ctx, self.m = ctx, machine
        self.trace = []
        self.edits = 0
        self.saves = 0
        # sparse runs: needs_save() (which evaluates every option) is asked only where the program itself asks - at saves,
        # quits, loads and session starts - and at every third action, instead of after every action (see C17)
        self.sparse = sparse

    @staticmethod
    def assignments(text, k):
        """{name: (value, marked_default)} of a config text - last assignment wins, the deprecated block is skipped,
        only names the tree defines are kept."""
        out = {}
        in_dep = False
        marked = False
        for ln in text.splitlines():
            s = ln.strip()
            if s.startswith("# Deprecated options for backward compatibility"):
                in_dep = True
            elif s.startswith("# End of deprecated options"):
                in_dep = False
            if in_dep:
                continue
            if s == "# default:":
                marked = True
                continue
            name = val = None
            if s.startswith("CONFIG_") and "=" in s:
                name, val = s[len("CONFIG_"):].split("=", 1)
            elif s.startswith("# CONFIG_") and s.endswith(" is not set"):
                name, val = s[len("# CONFIG_"):-len(" is not set")], "n"
            dep = k.deprecated_options
            if name is not None and dep is not None and dep.get_new_option(name) is not None:
                # an alias assigns its replacement (n/y swapped for `!` renames)
                if dep.is_inversion(name):
                    val = {"y": "n", "n": "y"}.get(val, val)
                name = dep.get_new_option(name)
            if name is not None and name in k.syms and k.syms[name].nodes and Monitor.well_formed(k.syms[name], val):
                out.pop(name, None)  # keep the position of the last assignment (dicts are insertion-ordered)
                out[name] = (val, marked)
            marked = False
        return out

    @staticmethod
    def unknown_on_disk(k, text):
        """Names assigned by the file (outside its deprecated block) that are neither options of the tree nor deprecated aliases."""
        out = []
        in_dep = False
        dep = k.deprecated_options
        for ln in text.splitlines():
            s = ln.strip()
            if s.startswith("# Deprecated options for backward compatibility"):
                in_dep = True
            elif s.startswith("# End of deprecated options"):
                in_dep = False
            if in_dep or not s.startswith("CONFIG_") or "=" not in s:
                continue
            name = s[len("CONFIG_"):].split("=", 1)[0]
            if not name or not all(c.isalnum() or c == "_" for c in name):
                continue
            if name in k.syms and k.syms[name].nodes:
                continue
            if dep is not None and dep.get_new_option(name) is not None:
                continue
            out.append(name)
        return out

    def value_conflict(self, k, disk_text, mem_text):
        """A sharper class than the file's origin: the recorded byte-vs-value findings are about files whose *assignments agree*
        with the evaluated configuration (only layout, omitted or extra lines differ).  An option that both the disk and the
        would-be save mention with different values - or a user (unmarked) value the disk does not hold at all - is an edit
        that quitting would lose, whatever the origin of the file."""
        da, ma = self.assignments(disk_text, k), self.assignments(mem_text, k)
        for name, (mv, mmark) in ma.items():
            if name in da and k.syms[name].choice is None:
                dv = da[name][0]
                if dv != mv and not self.same_value(k.syms[name], dv, mv):
                    return "/value-differs"
        # members of a choice are not independent assignments (the last y wins): compare the selections
        for ch in k.unique_choices:
            names = [s.name for s in ch.syms]
            dy = [n for n in da if n in names and da[n][0] == "y"]
            my = [n for n in ma if n in names and ma[n][0] == "y"]
            if dy and my and dy[-1] != my[-1]:
                return "/value-differs"
        return ""

    @staticmethod
    def well_formed(sym, v):
        """An assignment the loader can apply at all (ill-formed right-hand sides are ignored with a warning)."""
        t = sym.orig_type
        try:
            if t == core.BOOL:
                return v in ("y", "n")
            if t == core.INT:
                int(v, 10)
            elif t == core.HEX:
                return int(v, 16) >= 0
            elif t == core.FLOAT:
                return float(v) == float(v) and abs(float(v)) != float("inf")
            elif t == core.STRING:
                return len(v) >= 2 and v[0] == '"' and v[-1] == '"'
        except (ValueError, TypeError):
            return False
        return True

    @staticmethod
    def same_value(sym, a, b):
        """Equal up to the spelling a hand-written file may use (hex case/prefix, int sign/zeros, float form, bool =n)."""
        t = sym.orig_type
        try:
            if t == core.INT:
                return int(a, 10) == int(b, 10)
            if t == core.HEX:
                return int(a, 16) == int(b, 16)
            if t == core.FLOAT:
                return float(a) == float(b)
        except (ValueError, TypeError):
            return False
        if t == core.BOOL:
            return (a or "n") == (b or "n")
        return False

    def mechanism(self, sess, disk_text, mem_text):
        k = sess.state.kconf
        if disk_text is None:
            return "file-missing"
        conflict = self.value_conflict(k, disk_text, mem_text)
        if self.unknown_on_disk(k, disk_text):
            # independent of the session's own record (Kconfig.missing_syms): a file that assigns options the tree does not
            # define is never what a save would write, and the shipped code never reports such a session clean
            return "unknown-symbols-on-disk"
        if not self.m.disk_tool_written:
            return "hand-edited-file-on-disk" + conflict
        if self.m.disk_origin == "tool-old":
            return "file-of-older-tree-on-disk" + conflict
        dl, ml = disk_text.splitlines(), mem_text.splitlines()
        if "# Deprecated options for backward compatibility" in disk_text:
            return "deprecated-block-on-disk" + conflict
        if [x for x in dl if x.strip() != "# default:"] == [x for x in ml if x.strip() != "# default:"]:
            return "marker-only"
        if ops.injected(k):
            return "injected-default"
        ds, ms = set(dl), set(ml)
        names = [ln.split("CONFIG_")[1].split("=")[0].split(" ")[0] for ln in (ds ^ ms) if "CONFIG_" in ln]
        if names and all(n not in k.syms or not k.syms[n].nodes for n in names):
            return "unknown-or-deprecated-names-on-disk"
        if any(k.syms[n].choice is not None for n in names if n in k.syms):
            return "choice"
        if any(not k.syms[n].visibility for n in names if n in k.syms and k.syms[n].nodes):
            return "hidden-option"
        return "content"

    def clean_check(self, sess, where):
        """Oracle 1: needs_save() False  =>  disk bytes == what a save would write."""
        st = sess.state
        with simproc.quiet():
            ns = st.needs_save()
        if not ns:
            mem = would_write(st)
            disk = self.m.disk()
            if disk is None:
                same = not has_assignment(mem)
            else:
                same = disk.decode("utf-8", "replace") == mem
            if not same:
                self.ctx.violate(f"C16/clean-but-different/{self.mechanism(sess, None if disk is None else disk.decode('utf-8', 'replace'), mem)}",
                                 f"{where}: needs_save() is False but the file on disk is not what a save would write "
                                 f"(disk {None if disk is None else len(disk)} bytes, save would write {len(mem.encode())} bytes)")
        return ns

    session_injected = False

    def on_start(self, sess, first):
        # did this session ever carry an injected stored default (policy sdkconfig)?  A replacing load - also the reload
        # after a save - forgets injected defaults, so the question is asked before every action, not at the end
        self.session_injected = bool(ops.injected(sess.state.kconf))
        ns = self.clean_check(sess, "session start")
        if first and self.m.initial_is_tool_same:
            self.ctx.counters["probe:start-on-tool-written-file"] += 1
            if ns:
                self.ctx.violate("C16/dirty-at-start-on-tool-written-file", "the session starts on a file written by the same tool flow for the same program "
                                 "and reports that it needs saving")
        if not first and self.saved_before_exit:
            self.ctx.counters["probe:restart-on-own-save"] += 1
            if ns:
                inj = "/injected-default-in-saving-session" if self.saved_with_injection else ""
                self.ctx.violate("C16/dirty-at-start-after-own-save" + inj, "a new session on the file the previous session just saved reports that it needs saving")
        self.saved_before_exit = False
        self.saved_with_injection = False

    saved_before_exit = False
    saved_with_injection = False

    @staticmethod
    def user_state(k):
        """What the user did, as the session holds it: user values and choice picks (attribute reads, no evaluation)."""
        return ({s.name: s._user_value for s in k.unique_defined_syms},
                [c._user_selection.name if c._user_selection is not None else None for c in k.unique_choices])

    def before(self, sess, act):
        if ops.injected(sess.state.kconf):
            self.session_injected = True
        if act["key"].startswith("s!"):
            self.pre_fault = self.user_state(sess.state.kconf)
            with simproc.quiet():
                self.pre_fault_dirty = sess.state.needs_save()
        if self.sparse:
            return {"values": {s.name: s._user_value for s in sess.state.kconf.unique_defined_syms}, "notes": len(sess.app.notes)}
        with simproc.quiet():
            return {"values": {s.name: s.str_value for s in sess.state.kconf.unique_defined_syms}, "notes": len(sess.app.notes)}

    def after(self, i, act, log, pre, sess):
        st = sess.state
        where = f"after action {i} {act['key']!r} {log[:2]}"
        notes = [n[0] for n in sess.app.notes[pre["notes"]:]]
        if act["key"].startswith("s!"):
            # fault: the disk refused the save (read-only tree).  The session must keep every unsaved edit and keep
            # saying that it needs saving - a save that failed must not make the edits vanish.
            # (When the file already holds what a save would write, nothing is opened for writing and the save succeeds.)
            fired = sum((getattr(sess, "fault_counters", None) or {}).values())
            if fired > getattr(sess, "faults_seen", 0):
                sess.faults_seen = fired
                self.ctx.counters["fault:save-on-read-only-disk"] += 1
                if any(n.startswith("Error saving") for n in notes):
                    self.ctx.counters["probe:failed-save-reported"] += 1
                if self.user_state(st.kconf) != self.pre_fault:
                    self.ctx.violate("C16/edits-lost-by-failed-save", f"{where}: the save failed (EACCES) and the session's user values / choice picks changed")
                with simproc.quiet():
                    if self.pre_fault_dirty and not st.needs_save():
                        self.ctx.violate("C16/clean-after-failed-save", f"{where}: unsaved changes existed, the save failed (EACCES), and needs_save() is now False")
        saved = act["key"] == "s" and any(n.startswith(("Configuration saved", "No change")) for n in notes)
        exited = sess.app.exited
        if exited is not None and (exited.startswith("Configuration saved") or exited.startswith("No change to configuration")):
            saved = True
            self.saved_before_exit = True
            self.saved_with_injection = self.session_injected or bool(ops.injected(st.kconf))
        elif exited is not None:
            self.saved_before_exit = False
        if saved:
            self.saves += 1
            self.m.disk_tool_written = True
            self.m.disk_origin = "session-save"
            with simproc.quiet():
                if st.needs_save():
                    reason = "injected-default-in-saving-session" if self.session_injected else self.dirty_reason(st)
                    self.ctx.violate(f"C16/dirty-after-save/{reason}", f"{where}: immediately after a successful save needs_save() is True")
        if self.sparse and not saved and exited is None and act["key"] not in ("s", "q", "o") and i % 3:
            ns = None
        else:
            ns = self.clean_check(sess, where)
        if exited is not None and exited.startswith("No changes to save"):
            self.ctx.counters["probe:quit-without-asking"] += 1
        if self.sparse:
            now = {s.name: s._user_value for s in st.kconf.unique_defined_syms}
        else:
            with simproc.quiet():
                now = {s.name: s.str_value for s in st.kconf.unique_defined_syms}
        if now != pre["values"]:
            self.edits += 1
        self.trace.append((act["key"], ns if ns is None else bool(ns), saved))

    def dirty_reason(self, st):
        k = st.kconf
        if k.missing_syms:
            return "missing-syms"
        for sym in k.unique_defined_syms:
            if sym._sdkconfig_value is None:
                if sym.config_string:
                    return "not-in-baseline"
            elif sym.str_value != sym._sdkconfig_value:
                return "stale-baseline-hidden-option" if not sym.config_string else "value-differs-from-baseline"
            elif sym._loaded_as_default != sym.has_active_default_value():
                return "default-flag-differs"
        return "other"

    def raised(self, i, act, exc, sess):
        tb = traceback.extract_tb(exc.__traceback__)
        fn = tb[-1].name if tb else "?"
        self.ctx.counters["op_raised:%s/%s" % (type(exc).__name__, fn)] += 1
        self.ctx.ev("raised", i, type(exc).__name__, fn)
        return True


def execute(sc, ctx):
    m = uimachine.Machine(sc, ctx)
    mon = Monitor(ctx, m, sparse=bool(sc.get("sparse", sc.get("hash_salt", 0) & 4)))
    ctx.counters["probe:sparse-monitor" if mon.sparse else "probe:full-monitor"] += 1
    done = uimachine.run(m, sc["actions"], mon, ctx)
    disk = m.disk()
    ctx.ev("c16", done, mon.trace, digest(disk.decode("utf-8", "replace") if disk else None))
    ctx.nontrivial = mon.edits > 0 and mon.saves > 0
    ctx.key = digest((kgen.prog_shape(sc["prog"]), mon.trace, disk.decode("utf-8", "replace") if disk else None))


def reductions(sc):
    yield from common.list_reductions(sc, "actions")
    for i, a in enumerate(sc["actions"]):
        if len(a["tokens"]) > 1:
            c = copy.deepcopy(sc)
            c["actions"][i]["tokens"] = a["tokens"][:1]
            yield c
    if sc.get("initial") not in ("absent", "tool-old"):
        c = copy.deepcopy(sc)
        c["initial"] = "absent"
        yield c
    if sc.get("renames"):
        c = copy.deepcopy(sc)
        c["renames"] = None
        yield c
    for key in ("hand", "tool_hist"):
        if len(sc.get(key) or []) > 1:
            c = copy.deepcopy(sc)
            c[key] = sc[key][:1]
            yield c
    for i in range(len(sc.get("hand", []))):
        lines = sc["hand"][i].splitlines(True)
        for j in range(len(lines)):
            c = copy.deepcopy(sc)
            c["hand"][i] = "".join(lines[:j] + lines[j + 1:])
            yield c
    yield from common.prog_reductions(sc, keys=("prog", "prog_old"))
