"""C13 - outputs are rewritten only when they change; a save with backup never
loses both copies (DESIGN.md 3, C13).

Level: fault_enumeration - every mutating file-system operation of every sampled
save is a crash point (plus torn variants of every write), enumerated completely.
"""
import builtins
import copy
import os

from .. import kgen, simfs, simproc
from ..simfs import SimCrash
from . import common

ID = "C13"
LEVEL = "fault_enumeration"
BATCH = 10
PROBES_EXPECTED = ['probe:save-symlink', 'probe:older-backup-present', 'probe:save-via-lib', 'probe:save-via-server', 'probe:save-via-menuconfig', 'probe:regen-unchanged', 'probe:regen-rewritten', 'probe:save-unchanged', 'crash@replace', 'crash@write', 'crash@write/torn', 'crash@truncate', 'crash@create']
TIERS = {"quick": {"runs": 4000, "wall": 55}, "thorough": {"runs": 60000, "wall": 840}}
RULE = ("each run draws a program, knobs (parser, chunk size, set-order salt, symlink/regular destination, older .old present, "
        "deprecated block) and either (a) a save-with-backup scenario whose every mutating FS operation is a crash point "
        "(each write additionally torn at seeded prefixes incl. 0 bytes) or (b) a history of <=4 generations through the library "
        "writers / in-process kconfgen.main with changed and unchanged inputs; a run is non-trivial when previous and new contents "
        "differ and >=1 crash fired (a) or >=1 unchanged and >=1 changed regeneration occurred (b); distinct = digest of "
        "(program shape, contents digests, journal kinds, fault placements)")
REAL = ["esp_kconfiglib.core.Kconfig.write_config/_contents_eq/_save_old/_write_if_changed/write_autoconf/write_min_config/sync_deps",
        "kconfgen.core.main (click command in-process, formats config/header/cmake/json/json_menus/savedefconfig/docs/report)",
        "kconfgen.core.update_if_changed", "kernel file-system semantics of rename/symlink/O_TRUNC (real backing directory)"]
STUB = ["process death (SimCrash at a journalled operation)", "user-space write buffering (chunked writes)", "tempfile (sandboxed)",
        "shutil.copyfile (chunked copy through SimFS)"]
ASSUMPTIONS = ["process-death model: completed system calls are durable and ordered; no power-loss reordering (the code never fsyncs)",
               "a destination that is still the complete previous configuration counts as safe (DESIGN.md C13 clause 2 reading)",
               "faults other than process death (unwritable .old, ENOSPC) are outside the property's quantifier and not injected"]

HEADER = "# hdr\n"


def generate(r, tier):
    big = tier == "thorough"
    prog = kgen.gen_program(r, hi=24 if big else 12)
    sc = {"prog": prog, "parser": kgen.pick_parser(r, prog, 0.06), "hash_salt": r.getrandbits(32),
          "chunk": r.choice([1, 7, 16, 64, 64, 4096, 8192]) if r.random() < 0.8 else 32}
    tab = kgen.sym_table(prog)
    names = list(tab)
    sc["renames"], olds = kgen.rename_table(r, prog) if r.random() < 0.4 else (None, [])
    sc["deprecated"] = bool(sc["renames"]) and r.random() < 0.7

    def assigns(n):
        return [[nm, r.choice(kgen.SANE[tab[nm]["type"]] if r.random() < 0.85 else kgen.VALS[tab[nm]["type"]])]
                for nm in (r.choice(names) for _ in range(n))] if names else []

    if r.random() < 0.62:
        sc["mode"] = "save"
        sc["prev"] = assigns(r.randint(0, 4))
        sc["new"] = assigns(r.randint(1 if r.random() < 0.9 else 0, 4))
        sc["dest"] = r.choice(["regular", "regular", "symlink"])
        sc["older"] = r.choice([None, "# older backup\nCONFIG_X=y\n"])
        sc["torn"] = [0.0] + [round(r.random(), 3) for _ in range(r.choice([1, 2]))]
        sc["via"] = r.choice(["lib", "lib", "lib", "server", "menuconfig"])
        if sc["via"] != "lib":
            sc["chunk"] = max(sc["chunk"], 16)
    else:
        sc["mode"] = "regen"
        sc["via"] = r.choice(["lib", "kconfgen", "kconfgen"])
        gens = []
        for _ in range(r.randint(2, 4)):
            gens.append(assigns(r.randint(1, 3)) if (not gens or r.random() < 0.4) else [])
        sc["gens"] = gens
        sc["formats"] = r.sample(["config", "header", "cmake", "json", "json_menus", "savedefconfig", "docs", "report"], r.randint(2, 8))
        sc["labels"] = r.random() < 0.3
    return sc


def summarize(sc):
    s = {k: v for k, v in sc.items() if k != "prog"}
    s["kconfig"] = kgen.render(sc["prog"])
    return s


MODS = None


def _mods():
    global MODS
    if MODS is None:
        import esp_idf_kconfig.gen_kconfig_doc as gdoc
        import esp_kconfiglib.deprecated as dep
        import esp_kconfiglib.report as rep
        import kconfgen.core as kg

        MODS = [simproc.core, dep, rep, kg, gdoc]
    return MODS


def _apply(k, assigns):
    for nm, v in assigns:
        s = k.syms.get(nm)
        if s is not None:
            with simproc.quiet():
                s.set_value(v)


def execute(sc, ctx):
    sb = ctx.fresh_dir()
    kpath = os.path.join(sb, "Kconfig")
    with builtins.open(kpath, "w") as f:
        f.write(kgen.render(sc["prog"]))
    rn = None
    if sc.get("renames"):
        rn = os.path.join(sb, "sdkconfig.rename")
        with builtins.open(rn, "w") as f:
            f.write(sc["renames"])
    if sc["mode"] == "save":
        _save(sc, ctx, sb, kpath, rn)
    else:
        _regen(sc, ctx, sb, kpath, rn)


# ---- clause 2: save with backup ------------------------------------------
def _save(sc, ctx, sb, kpath, rn):
    fs = simfs.SimFS(sb, chunk=sc["chunk"])
    k = simproc.new_kconfig(kpath, parser=sc["parser"], renames=[rn] if rn else None)
    dep = sc["deprecated"]
    _apply(k, sc["prev"])
    via = sc.get("via", "lib")
    hdr = HEADER
    if via == "menuconfig":
        from esp_menuconfig import idf_headers

        hdr = idf_headers.idf_sdkconfig_header()
        dep = False
    elif via == "server":
        from esp_kconfiglib.constants import build_idf_sdkconfig_header

        hdr = build_idf_sdkconfig_header()
        dep = True
    prev = k._config_contents(hdr, write_deprecated=dep)
    _apply(k, sc["new"])
    new = k._config_contents(hdr, write_deprecated=dep)
    dest = os.path.join(sb, "sdkconfig")
    real_dest = dest
    if sc["dest"] == "symlink":
        os.makedirs(os.path.join(sb, "real"))
        real_dest = os.path.join(sb, "real", "sdkconfig")

    def reset_disk():
        for p in (dest, dest + ".old", real_dest):
            if os.path.lexists(p):
                os.remove(p)
        fs.put(real_dest, prev)
        if sc["dest"] == "symlink":
            os.symlink(os.path.join("real", "sdkconfig"), dest)
        if sc["older"] is not None:
            fs.put(dest + ".old", sc["older"])

    def do_save():
        if via == "lib":
            with simproc.quiet():
                k.write_config(dest, header=hdr, save_old=True, write_deprecated=dep)
        elif via == "server":
            common.server_save(k, dest, dep)
        else:
            common.menuconfig_save(k, dest)

    def state():
        return fs.read(dest), fs.read(dest + ".old")

    changed = prev != new
    pb, nb = prev.encode(), new.encode()
    # keep complete enumeration affordable: at most ~60 write operations per file copy
    fs.chunk = max(sc["chunk"], (max(len(pb), len(nb)) + 59) // 60)
    reset_disk()
    fs.arm()
    with simfs.Installed(fs, _mods()):
        do_save()
    n_ops = fs.opcount
    kinds = [j[1] for j in fs.ops_since(fs.node_start_tick)]
    ctx.events += n_ops
    ctx.ev("dry", kinds, changed)
    d, o = state()
    if not changed:
        ctx.counters["probe:save-unchanged"] += 1
        if n_ops:
            ctx.violate("C13/rewrite-unchanged/save", f"save of an unchanged configuration performed {kinds}")
        ctx.key = ("save-unchanged", kgen.prog_shape(sc["prog"]).__repr__())
        return
    if d != nb:
        ctx.violate("C13/save-incomplete/no-fault", "fault-free save left a destination that is not the new configuration")
    if o != pb:
        ctx.violate("C13/backup-missing/no-fault", f"fault-free save with backup left .old != previous configuration ({kinds})")
    if sc["dest"] == "symlink":
        ctx.counters["probe:save-symlink"] += 1
        if not os.path.islink(dest):
            ctx.counters["probe:symlink-replaced-by-file"] += 1
    if sc["older"] is not None:
        ctx.counters["probe:older-backup-present"] += 1
    ctx.counters["probe:save-via-" + via] += 1
    placements = []
    for kidx in range(n_ops):
        variants = [None]
        if kinds[kidx] == "write":
            variants += sc["torn"]
        for torn in variants:
            reset_disk()
            fs.arm(crash_at=kidx, torn=torn)
            crashed = False
            try:
                with simfs.Installed(fs, _mods()):
                    do_save()
            except SimCrash:
                crashed = True
            ctx.events += fs.opcount
            if not crashed:
                ctx.violate("C13/harness/crash-not-fired", f"crash point {kidx} of {n_ops} did not fire")
                continue
            ctx.counters["crash_points_enumerated"] += 1
            d, o = state()
            ok = d == nb or d == pb or o == pb
            placements.append((kidx, kinds[kidx], torn, d == nb, d == pb, o == pb))
            ctx.ev("crash", kidx, kinds[kidx], torn, ok)
            if not ok:
                where = kinds[kidx] + ("/torn" if torn is not None else "")
                ctx.violate(f"C13/both-copies-lost/{sc['dest']}/crash@{where}",
                            f"crash at op {kidx} ({where}) of {kinds}: destination is neither new nor previous "
                            f"(len {None if d is None else len(d)}), .old is not the previous configuration "
                            f"(len {None if o is None else len(o)}; prev len {len(pb)}, new len {len(nb)})")
    ctx.counters.update(fs.counters)
    ctx.nontrivial = bool(placements)
    ctx.key = simproc_digest((kgen.prog_shape(sc["prog"]), len(pb), len(nb), sc["dest"], sc["older"] is None, sc["chunk"], kinds, placements))


def simproc_digest(o):
    from ..rng import digest

    return digest(o)


# ---- clause 1: no rewrite when nothing changed ------------------------------
FMT_EXT = {"config": "sdkconfig", "header": "sdkconfig.h", "cmake": "sdkconfig.cmake", "json": "sdkconfig.json",
           "json_menus": "menus.json", "savedefconfig": "sdkconfig.min", "docs": "kconfig.inc", "report": "report.json"}


def _regen_raised(ctx, sc, gi, g, e):
    """A generator that raises.  In general that is not C13's subject (the run is cut and counted).  One case is: the
    previous generation of the *same* configuration succeeded, so the only new ingredient is the existing output that the
    compare-before-write step has to read - the regeneration of an unchanged configuration failed on its own output."""
    import traceback

    fn = traceback.extract_tb(e.__traceback__)[-1].name
    if gi > 0 and not g:
        ctx.violate(f"C13/regenerate-raised/{sc['via']}/{type(e).__name__}",
                    f"generation {gi} repeats the configuration of generation {gi - 1}, which succeeded, but raised {type(e).__name__} in {fn}: {e}")
    else:
        ctx.counters["op_raised:%s/%s" % (sc["via"], type(e).__name__)] += 1
    ctx.ev("regen-raised", gi, type(e).__name__)


def _regen(sc, ctx, sb, kpath, rn):
    fs = simfs.SimFS(sb, chunk=sc["chunk"])
    out = os.path.join(sb, "out")
    os.makedirs(out)
    tmpd = os.path.join(sb, "tmp")
    cum = []
    dests = {}
    unchanged = changed = 0
    trace = []
    for gi, g in enumerate(sc["gens"]):
        cum = cum + g
        before = {p: fs.read(p) for p in dests.values()}
        t0 = fs.tick
        fs.arm()
        expect = {}
        if sc["via"] == "lib":
            k = simproc.new_kconfig(kpath, parser=sc["parser"], renames=[rn] if rn else None)
            _apply(k, cum)
            dests = {"config": os.path.join(out, "sdkconfig"), "header": os.path.join(out, "autoconf.h"),
                     "min": os.path.join(out, "defconfig"), "auto.conf": os.path.join(out, "deps", "auto.conf")}
            try:
                with simfs.Installed(fs, _mods()), simproc.quiet():
                    k.write_config(dests["config"], header=HEADER, write_deprecated=sc["deprecated"])
                    k.write_autoconf(dests["header"], header="/* h */\n", write_deprecated=sc["deprecated"])
                    k.write_min_config(dests["min"], labels=sc["labels"])
                    k.sync_deps(os.path.join(out, "deps"))
            except Exception as e:  # noqa: B902
                _regen_raised(ctx, sc, gi, g, e)
                return
            expect = {"config": k._config_contents(HEADER, write_deprecated=sc["deprecated"]),
                      "header": k._autoconf_contents("/* h */\n", write_deprecated=sc["deprecated"]),
                      "min": k._min_config_contents(None, labels=sc["labels"]), "auto.conf": k._old_vals_contents()}
        else:
            import kconfgen.core as kg

            tab = kgen.sym_table(sc["prog"])
            dfl = os.path.join(sb, "sdkconfig.defaults")
            with builtins.open(dfl, "w") as f:
                f.write("".join(kgen.assign_line(nm, tab[nm]["type"], v) for nm, v in cum if nm in tab))
            dests = {fmt: os.path.join(out, FMT_EXT[fmt]) for fmt in sc["formats"]}
            args = ["--kconfig", kpath, "--defaults", dfl, "--env", "IDF_TARGET=esp32", "--env", "IDF_VERSION=v9.9",
                    "--env", "KCONFIG_REPORT_VERBOSITY=quiet", "--env", "KCONFIG_PARSER_VERSION=%d" % sc["parser"],
                    "--env", "ESP_IDF_KCONFIG_MIN_LABELS=%d" % (1 if sc["labels"] else 0)]
            if "config" in dests:
                args += ["--config", dests["config"]]
            if rn:
                args += ["--sdkconfig-rename", rn]
            if not sc["deprecated"]:
                args += ["--dont-write-deprecated"]
            for fmt in sc["formats"]:
                args += ["--output", fmt, dests[fmt]]
            simproc.fresh_report()
            simproc.next_process()
            with simfs.Installed(fs, _mods(), tempdir=tmpd), simproc.quiet():
                try:
                    kg.main.main(args=args, standalone_mode=False)
                except (SystemExit, Exception) as e:
                    _regen_raised(ctx, sc, gi, g, e)
                    simproc.scrub_env()
                    return
            simproc.scrub_env()
        ctx.events += fs.opcount
        for name, p in sorted(dests.items()):
            after = fs.read(p)
            muts = [j for j in fs.mutations(t0, p)]
            b = before.get(p)
            trace.append((gi, name, b == after, [m[1] for m in muts]))
            if after is None:
                ctx.violate(f"C13/output-missing/{sc['via']}/{name}", f"generation {gi} did not produce {name}")
                continue
            if name in expect and after != expect[name].encode():
                ctx.violate(f"C13/stale-output/{sc['via']}/{name}",
                            f"generation {gi}: {name} on disk is not what the writer produces for this configuration "
                            f"(disk {len(after)} bytes, expected {len(expect[name].encode())}; ops {[m[1] for m in muts]})")
            if b is not None and b == after:
                unchanged += 1
                ctx.counters["probe:regen-unchanged"] += 1
                if muts:
                    ctx.violate(f"C13/rewrite-unchanged/{sc['via']}/{name}",
                                f"generation {gi}: {name} has identical content before and after but was touched: {[m[1] for m in muts]}")
            elif b is not None:
                changed += 1
                ctx.counters["probe:regen-rewritten"] += 1
                # identical inputs: nothing new is assigned and - where the sdkconfig is also an input (kconfgen --config) -
                # the previous generation already started from the file it then left unchanged
                same_inputs = gi > 0 and not g and (sc["via"] == "lib" or "config" not in sc.get("formats", ())
                                                    or (gi > 1 and not sc["gens"][gi - 1]))
                if same_inputs:
                    # the generation repeats the previous configuration with identical inputs in a new process: whatever
                    # differs in the output (an iteration order, a temp-file name, a counter) makes every build rewrite it
                    ctx.violate(f"C13/output-differs-for-unchanged-configuration/{sc['via']}/{name}",
                                f"generation {gi} repeats the configuration of generation {gi - 1} but {name} changed "
                                f"({len(b)} -> {len(after)} bytes; first difference at byte "
                                f"{next((i for i, (x, y) in enumerate(zip(b, after)) if x != y), min(len(b), len(after)))})")
                if not muts:
                    ctx.violate("C13/harness/changed-without-journal", f"{name} changed without a journalled operation")
        # leftovers of the temp-file flow
        if sc["via"] == "kconfgen" and os.path.isdir(tmpd):
            left = [x for x in os.listdir(tmpd) if not x.endswith(".old")]
            if left:
                ctx.counters["probe:tempfile-left"] += 1
    ctx.counters.update(fs.counters)
    ctx.ev("regen", trace)
    ctx.nontrivial = unchanged > 0 and changed > 0
    ctx.key = simproc_digest((kgen.prog_shape(sc["prog"]), sc["via"], trace))


# ---- shrinking ---------------------------------------------------------
def reductions(sc):
    for key in ("prev", "new"):
        if key in sc:
            for i in range(len(sc[key])):
                c = copy.deepcopy(sc)
                del c[key][i]
                yield c
    if "gens" in sc:
        for i in range(len(sc["gens"])):
            if len(sc["gens"]) > 2:
                c = copy.deepcopy(sc)
                del c["gens"][i]
                yield c
        for i, g in enumerate(sc["gens"]):
            for j in range(len(g)):
                c = copy.deepcopy(sc)
                del c["gens"][i][j]
                yield c
    if "formats" in sc and len(sc["formats"]) > 1:
        for i in range(len(sc["formats"])):
            c = copy.deepcopy(sc)
            del c["formats"][i]
            yield c
    if sc.get("renames"):
        c = copy.deepcopy(sc)
        c["renames"] = None
        c["deprecated"] = False
        yield c
    yield from common.prog_reductions(sc)

TECHNIQUE = "deterministic simulation: SimFS journal + complete crash-point/torn-write enumeration per sampled save, journal-witnessed no-rewrite over generation histories"
DESIGN_REF = "DESIGN.md section 3, C13 (and 2.3 SimFS)"
LEVEL_TEXT = ("Per sampled (program, previous/new configuration, destination kind, chunk size) every mutating file-system operation of the save "
              "is a crash point and every write is additionally torn; the invariant dest==new or dest==prev or .old==prev is evaluated on the "
              "surviving disk by a cold reader. Regeneration histories through the library writers and the in-process kconfgen command are "
              "checked against the journal (no mutating operation on a destination whose bytes are unchanged). Scenarios are sampled (seeded), "
              "the crash dimension inside a scenario is exhaustive - hence fault_enumeration, not proof.")
