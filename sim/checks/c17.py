"""C17 - the menuconfig model stays consistent under any sequence of user actions
(DESIGN.md 3, C17).  Same machine as C16 (sim/simui.py, sim/uimachine.py), other
monitors, programs biased towards menus with `visible if`, menuconfig options,
implicit sub-menus, choices defined in two places, options locked by select/set.
"""
import copy
import traceback

from .. import kgen, ops, simproc, uimachine
from ..rng import digest
from . import common

core = simproc.core

ID = "C17"
LEVEL = "exploration"
BATCH = 25
PROBES_EXPECTED = ['probe:menu-entered-or-left', 'probe:input-accepted', 'probe:session-ended']
TIERS = {"quick": {"runs": 9000, "wall": 50}, "thorough": {"runs": 200000, "wall": 840}}
RULE = ("each run draws a program (biased to menus with `visible if`, menuconfig options with implicit sub-menus, choices, select/set-locked options), "
        "an initial sdkconfig class and a history of 5-60 UI actions (the complete key table of MenuConfigApp/MenuOptionList with dialog answers: keys, "
        "typed values checked by the real validator, file names, search queries), sessions restarting after a quit; invariants after every action; "
        "non-trivial = >=1 value changed and >=1 menu entered/left; distinct = digest of (program shape, action keys, per-action (menu depth, row))")
REAL = ["esp_menuconfig.model.MenuConfigState (all methods)", "esp_menuconfig.app.MenuConfigApp handler methods (unbound, fake self)",
        "esp_menuconfig.widgets.MenuOptionList.populate/current_node", "esp_menuconfig.formatting.node_str/check_valid/info_str/info_title/range_info",
        "esp_menuconfig.menuconfig(headless=True) session start", "esp_menuconfig.screens classes (constructed; allowed_keys/validator used)"]
STUB = ["Textual runtime: event loop, focus, rendering, key->message dispatch (1:1 table in sim/simui.py), the screens' own widgets"]
ASSUMPTIONS = ["'the highlighted row exists' = 0 <= sel_node_i < len(shown) whenever shown is non-empty; freshness of `shown` is not demanded",
               "'locked' = the option has an active `set` (Symbol._has_active_indirect_set) or assignable == (2,) for a non-choice bool",
               "accepted input is compared as: string identical; int/hex equal as integers; float equal as floats"]
TECHNIQUE = "deterministic simulation: the real menuconfig model and app handlers driven by a seeded simulated user (keys + dialog answers) with invariants checked after every action"
DESIGN_REF = "DESIGN.md section 3, C17 (and 2.6 SimUI)"
LEVEL_TEXT = "Seeded exploration of UI action histories over generated programs; invariants after every action; sampling, not enumeration."

FEATS = ["choice", "menu", "if", "menuconfig", "comment", "if_in_choice", "select", "imply", "set", "setdefault", "redef", "warning"]


def generate(r, tier):
    big = tier == "thorough"
    feats = [f for f in FEATS if f in ("menu", "menuconfig", "choice") or r.random() < 0.7]
    prog = kgen.gen_menu_program(r) if r.random() < 0.3 else kgen.gen_program(r, lo=4, hi=18 if big else 12, feats=feats)
    sc = {"prog": prog, "parser": kgen.pick_parser(r, prog, 0.04), "hash_salt": r.getrandbits(32), "policy": r.choice([None, None, "kconfig"])}
    sc["renames"] = kgen.rename_table(r, prog)[0] if r.random() < 0.2 else None
    sc["hand"] = [kgen.handwritten(r, prog, sane=r.random() < 0.6) for _ in range(r.randint(0, 2))]
    sc["tool_hist"] = [ops.gen_history(r, prog, r.randint(0, 6), weights={"read": 0, "save": 0, "load": 0, "restart": 0, "load_hand": 0}, sane=0.9)
                       for _ in range(r.randint(0, 2))]
    sc["initial"] = r.choice(["absent", "tool-same", "tool-same", "hand"])
    sc["actions"] = uimachine.gen_actions(r, prog, r.randint(5, 60 if big else 40), hand_n=len(sc["hand"]), tool_n=len(sc["tool_hist"]),
                                          weights={"q": 2, "s": 3, "macro": 10})
    return sc


def summarize(sc):
    s = {k: v for k, v in sc.items() if k != "prog"}
    s["kconfig"] = kgen.render(sc["prog"])
    s["actions"] = [(a["key"], len(a["tokens"])) for a in sc["actions"]]
    return s


def _forced_by_set(sym):
    """An enabled `set` of another option forces this one - decided from the stored (value, condition, source) entries,
    not from the side flag the evaluation leaves behind (which is what the code under test consults)."""
    return any(core.expr_value(cond) for _value, cond, _source in sym.rev_values)


class Monitor:
    def __init__(self, ctx, sparse=False):
        self.ctx = ctx
        self.trace = []
        self.value_changes = 0
        self.menu_moves = 0
        # Observation perturbs the state: a monitor that evaluates every option before and after every action keeps all
        # caches and side flags fresh, which the real program (it only renders the displayed rows) does not.  In "sparse"
        # runs the monitor evaluates nothing but the option under the cursor.
        self.sparse = sparse

    def on_start(self, sess, first):
        self.check_rows(sess, "session start")

    def check_rows(self, sess, where):
        st = sess.state
        if st.shown:
            if not (0 <= st.sel_node_i < len(st.shown)):
                self.ctx.violate("C17/highlight-out-of-range", f"{where}: sel_node_i={st.sel_node_i} with {len(st.shown)} rows")
        if st.cur_menu is not st.kconf.top_node and not st.cur_menu.is_menuconfig:
            self.ctx.violate("C17/current-menu-not-a-menu", f"{where}: cur_menu is neither the top node nor a menu")

    def before(self, sess, act):
        st = sess.state
        k = st.kconf
        pre = {"menu": st.cur_menu, "depth": len(st.menu_path()) if hasattr(st, "menu_path") else 0}
        if self.sparse:
            node = st.shown[st.sel_node_i] if (st.shown and 0 <= st.sel_node_i < len(st.shown)) else None
            s = node.item if node is not None and isinstance(node.item, core.Symbol) else None
            pre["bools"], pre["locked"] = {}, {}
            with simproc.quiet():
                if s is not None and s.orig_type == core.BOOL:
                    pre["bools"][s.name] = (s.bool_value, tuple(s.assignable), s._user_value)
                if s is not None:
                    val = s.str_value
                    if _forced_by_set(s) or (s.orig_type == core.BOOL and not s.choice and tuple(s.assignable) == (2,)):
                        pre["locked"][s.name] = (val, s._user_value)
            pre["values"] = {x.name: x._user_value for x in k.unique_defined_syms}  # user values: attribute reads only
            sess.last_input = None
            return pre
        with simproc.quiet():
            pre["bools"] = {s.name: (s.bool_value, tuple(s.assignable), s._user_value) for s in k.unique_defined_syms if s.orig_type == core.BOOL}
            pre["locked"] = {s.name: (s.str_value, s._user_value) for s in k.unique_defined_syms
                             if _forced_by_set(s) or (s.orig_type == core.BOOL and not s.choice and tuple(s.assignable) == (2,))}
            pre["values"] = {s.name: s.str_value for s in k.unique_defined_syms}
        sess.last_input = None
        return pre

    def after(self, i, act, log, pre, sess):
        ctx = self.ctx
        st = sess.state
        k = st.kconf
        where = f"after action {i} {act['key']!r} {log[:2]}"
        self.check_rows(sess, where)
        key = act["key"]
        edit_keys = ("space", "enter", "y", "n")
        with simproc.quiet():
            # 3. leave_menu returns to the menu that was left
            if key in ("left",) and pre["menu"] is not k.top_node and st.cur_menu is not pre["menu"]:
                # only when the menu that was left still exists in the displayed list
                if st.shown and pre["menu"] in st.shown and st.shown[st.sel_node_i] is not pre["menu"]:
                    ctx.violate("C17/leave-menu-wrong-row", f"{where}: left a menu but the highlighted row is not that menu")
            if st.cur_menu is not pre["menu"]:
                self.menu_moves += 1
            # 4. only currently accepted values are applied; locked options stay
            if key in edit_keys:
                for s in k.unique_defined_syms:
                    if s.orig_type == core.BOOL and s.name in pre["bools"]:
                        bv, asg, uv = pre["bools"][s.name]
                        if s._user_value != uv and s._user_value is not None and not s.choice:
                            if s._user_value not in asg:
                                ctx.violate("C17/value-outside-assignable", f"{where}: {s.name} got user value {s._user_value} but assignable was {asg}")
                for name, (val, uv) in pre["locked"].items():
                    s = k.syms[name]
                    if s._user_value != uv:
                        ctx.violate("C17/locked-option-changed/user-value", f"{where}: locked option {name} user value {uv!r} -> {s._user_value!r}")
                    elif s.str_value != val and s._has_active_indirect_set is False and not any(
                            k.syms[n].str_value != v for n, v in pre["values"].items() if n != name and n not in pre["locked"]):
                        pass
            # 5. a value the validator accepted is the value the option then has
            li = getattr(sess, "last_input", None)
            if li and li[1] is not None and li[0] is not None:
                node, text = li
                sym = node.item
                if isinstance(sym, core.Symbol) and st.changeable(node) or isinstance(sym, core.Symbol):
                    cur = sym.str_value
                    ok = True
                    try:
                        if sym.orig_type == core.STRING:
                            ok = cur == text
                        elif sym.orig_type == core.INT:
                            ok = int(cur, 10) == int(text.strip(), 10)
                        elif sym.orig_type == core.HEX:
                            ok = int(cur, 16) == int(text.strip(), 16)
                        elif sym.orig_type == core.FLOAT:
                            ok = float(cur) == float(text.strip())
                    except ValueError:
                        ok = False
                    if not ok:
                        why = ("set-locked" if _forced_by_set(sym) else "invisible" if not sym.visibility else "visible")
                        ctx.violate(f"C17/accepted-input-not-applied/{core.TYPE_TO_STR[sym.orig_type]}/{why}",
                                    f"{where}: the validator accepted {text!r} for {sym.name} but its value is {cur!r}")
                    ctx.counters["probe:input-accepted"] += 1
            now = ({s.name: s._user_value for s in k.unique_defined_syms} if self.sparse else
                   {s.name: s.str_value for s in k.unique_defined_syms})
        if now != pre["values"]:
            self.value_changes += 1
        self.trace.append((key, len(st.shown), st.sel_node_i))

    def raised(self, i, act, exc, sess):
        tb = traceback.extract_tb(exc.__traceback__)
        fn = next((f.name for f in reversed(tb) if "esp_menuconfig" in f.filename or "esp_kconfiglib" in f.filename), tb[-1].name if tb else "?")
        self.ctx.violate(f"C17/raise/{type(exc).__name__}/{fn}",
                         f"action {i} {act['key']!r} raised {type(exc).__name__}: {exc} (innermost repo frame: {fn})")
        return True


def execute(sc, ctx):
    m = uimachine.Machine(sc, ctx)
    mon = Monitor(ctx, sparse=bool(sc.get("sparse", sc.get("hash_salt", 0) & 4)))
    ctx.counters["probe:sparse-monitor" if mon.sparse else "probe:full-monitor"] += 1
    done = uimachine.run(m, sc["actions"], mon, ctx)
    ctx.ev("c17", done, mon.trace)
    ctx.nontrivial = mon.value_changes > 0 and mon.menu_moves > 0
    if mon.menu_moves:
        ctx.counters["probe:menu-entered-or-left"] += 1
    ctx.key = digest((kgen.prog_shape(sc["prog"]), mon.trace))


def reductions(sc):
    yield from common.list_reductions(sc, "actions")
    for i, a in enumerate(sc["actions"]):
        if len(a["tokens"]) > 1:
            c = copy.deepcopy(sc)
            c["actions"][i]["tokens"] = a["tokens"][:1]
            yield c
    if sc.get("initial") != "absent":
        c = copy.deepcopy(sc)
        c["initial"] = "absent"
        yield c
    if sc.get("renames"):
        c = copy.deepcopy(sc)
        c["renames"] = None
        yield c
    for key in ("hand", "tool_hist"):
        if sc.get(key):
            c = copy.deepcopy(sc)
            c[key] = []
            yield c
    yield from common.prog_reductions(sc)
