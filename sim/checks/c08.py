"""C08 - inferred values stay inferred; user values stay user values (DESIGN.md 4, C08).

Clause 1 (same tree): twin nodes load F and F-minus-default-marked-entries and
are then driven step-locked through the same edit history.
Clause 2 (upgrade): F is written under program version v and loaded under
kgen.evolve(v) with KCONFIG_DEFAULTS_POLICY kconfig / sdkconfig.
"""
import builtins
import copy
import os
import re

from .. import kgen, ops, simproc
from ..rng import digest
from . import common

core = simproc.core

ID = "C08"
LEVEL = "exploration"
BATCH = 40
PROBES_EXPECTED = ['probe:stored-choice-default-checked', 'probe:upgrade/sdkconfig', 'probe:upgrade/kconfig', 'probe:stored-default-checked', 'probe:context-free-mismatch', 'probe:promptless-entries', 'probe:used-instance', 'probe:default-injected']
TIERS = {"quick": {"runs": 12000, "wall": 50}, "thorough": {"runs": 300000, "wall": 840}}
RULE = ("each run draws a program (and for the upgrade clause an evolved version: changed defaults/conditions/ranges/prompt conditions, "
        "added/removed options), a policy (sdkconfig/kconfig), a prefix history reaching a configuration whose file F is written, optionally a "
        "'used instance' history executed by both twins before the load, and an edit history applied to both twins after it; "
        "non-trivial = F has >=1 default-marked and >=1 unmarked entry and >=1 edit changed a value; distinct = digest of (program shapes, F, "
        "policy, final view)")
REAL = ["esp_kconfiglib.core: Kconfig._load_config (default marker recognition, deferred default handling, replace), Symbol/Choice.resolve_defaults, "
        "_inject_default_value(_for_choice), Symbol.has_active_default_value/config_string", "esp_kconfiglib.report.DefaultValuesArea"]
STUB = ["no faults; the simulator contributes histories, the restart on the file, the tree-version upgrade between save and load, the policy "
        "environment and the set-iteration order (resolve_defaults recurses over sets)"]
ASSUMPTIONS = ["F-minus is F with every `# default:` line and the assignment after it deleted",
               "policy sdkconfig: 'keeps the stored value' is asserted for non-choice options with a prompt that are visible after the load, not force-set/selected, "
               "whose stored value is well-formed and inside the range active after the load; for a choice when exactly one stored default member is y and visible",
               "'both report the mismatch' is asserted only for context-free options (no condition, default or range mentioning another option)",
               "KCONFIG_DEFAULTS_POLICY=interactive is excluded by the property"]
TECHNIQUE = "deterministic simulation: twin nodes (file vs. file without default-marked entries) step-locked under seeded edit histories, tree-version upgrade between save and load under both policies, report-record oracle"
DESIGN_REF = "DESIGN.md section 4, C08"
LEVEL_TEXT = "Seeded exploration of (program, version pair, policy, history) with twin-node oracles; sampling, not enumeration."


def generate(r, tier):
    big = tier == "thorough"
    prog = kgen.gen_program(r, hi=18 if big else 11, p_shuffle=0.5)
    sc = {"prog": prog, "hash_salt": r.getrandbits(32), "policy": r.choice(["sdkconfig", "kconfig", None])}
    sc["mode"] = r.choice(["same", "same", "upgrade", "upgrade", "upgrade"])
    sc["prog2"] = kgen.evolve(r, prog, pair_bias=0.35) if sc["mode"] == "upgrade" else None
    sc["parser"] = 1 if (sc["prog2"] and not kgen.v2_ok(sc["prog2"])) else kgen.pick_parser(r, prog, 0.05)
    # the prefix may save intermediate configurations (slots); a used instance may have loaded one of them before it
    # loads F - a long-lived process (server, menuconfig) loads more than once
    sc["prefix"] = ops.gen_history(r, prog, r.randint(0, 12), weights={"read": 6, "edge": 14, "save": 4, "load": 0, "restart": 2, "load_hand": 0}, sane=0.9)
    slots = {o[1] for o in sc["prefix"] if o[0] in ("save", "restart")}
    tgt = sc["prog2"] or prog
    sc["used"] = ops.gen_history(r, tgt, r.randint(1, 6), weights={"read": 3, "save": 0, "load": 8 if slots else 0, "restart": 0, "stale_merge": 5, "stale_chain": 5}, sane=0.9,
                                 presaved=slots) if r.random() < 0.45 else []
    for o in sc["used"]:
        if o[0] == "load" and r.random() < 0.5:
            o[2] = 0  # a merge: under policy sdkconfig stale default-marked entries of the slot get injected for the session
    sc["edits"] = ops.gen_history(r, tgt, r.randint(0, 8), weights={"edge": 20, "read": 4, "save": 0, "load": 0, "restart": 0}, sane=0.85)
    return sc


def summarize(sc):
    s = {k: v for k, v in sc.items() if k not in ("prog", "prog2")}
    s["kconfig"] = kgen.render(sc["prog"])
    if sc.get("prog2"):
        s["kconfig_new"] = kgen.render(sc["prog2"])
    return s


_SET = re.compile(r"^CONFIG_([A-Za-z0-9_]+)=(.*)$")
_UNSET = re.compile(r"^# CONFIG_([A-Za-z0-9_]+) is not set$")


def parse_entries(text):
    """[(name, raw value, marked_default)] of an sdkconfig text (deprecated block excluded)."""
    out, marked, indep = [], False, False
    for ln in text.splitlines():
        s = ln.strip()
        if s == "# default:":
            marked = True
            continue
        if s.startswith("# Deprecated options"):
            indep = True
        if s.startswith("# End of deprecated options"):
            indep = False
        m = _SET.match(s)
        if m and not indep:
            out.append((m.group(1), m.group(2), marked))
        else:
            m = _UNSET.match(s)
            if m and not indep:
                out.append((m.group(1), "n", marked))
        marked = False
    return out


def strip_promptless(text, k):
    """Remove the entries of options that have no prompt in tree k."""
    out, lines, i = [], text.splitlines(True), 0
    while i < len(lines):
        ln = lines[i]
        tgt = lines[i + 1] if (ln.strip() == "# default:" and i + 1 < len(lines)) else ln
        m = _SET.match(tgt.strip()) or _UNSET.match(tgt.strip())
        s = k.syms.get(m.group(1)) if m else None
        if s is not None and s.nodes and all(n.prompt is None for n in s.nodes):
            i += 2 if tgt is not ln else 1
            continue
        out.append(ln)
        i += 1
    return "".join(out)


def _in_range(sym, val):
    try:
        if sym.orig_type == core.FLOAT:
            v = float(val)
            conv = lambda s: float(s.str_value)  # noqa: E731
        else:
            base = 16 if sym.orig_type == core.HEX else 10
            v = int(val, base)
            conv = lambda s: int(s.str_value, base)  # noqa: E731
        for lo, hi, cond in sym.ranges:
            if core.expr_value(cond):
                return conv(lo) <= v <= conv(hi)
        return True
    except ValueError:
        return False


def _same_value(sym, a, b):
    try:
        if sym.orig_type == core.INT:
            return int(a, 10) == int(b, 10)
        if sym.orig_type == core.HEX:
            return int(a, 16) == int(b, 16)
        if sym.orig_type == core.FLOAT:
            return float(a) == float(b)
    except ValueError:
        return False
    return a == b


def _file_value(sym, raw):
    if sym.orig_type == core.STRING:
        m = core._conf_string_match(raw)
        return core.unescape(m.group(1)) if m else None
    if sym.orig_type == core.BOOL:
        return raw[:1] if raw[:1] in ("y", "n") else None
    return raw


def _reaches_choice_member(sym, limit=200):
    """Does the option depend - directly or through other options - on a member of a choice?  (Choices are resolved
    after the plain options during a load, which is the recorded mechanism.)"""
    seen, todo = set(), [sym]
    while todo and len(seen) < limit:
        x = todo.pop()
        if id(x) in seen:
            continue
        seen.add(id(x))
        for d in getattr(x, "dependencies", ()):
            if getattr(d, "is_constant", False):
                continue
            if getattr(d, "choice", None) is not None or isinstance(d, core.Choice):
                return True
            todo.append(d)
    return False


def _context_free(prog, name):
    """No condition, default or range of `name` (incl. enclosing menus/ifs) mentions another option."""
    tab = kgen.sym_table(prog)
    edges = kgen.dep_edges(prog)
    return name in tab and not any(b == name for a, b, _ in edges)


def execute(sc, ctx):
    sb = ctx.fresh_dir()
    text1 = kgen.render(sc["prog"])
    node0 = ops.KNode(sb, text1, parser=sc["parser"], policy=sc["policy"], tag="old")
    ops.run_history(node0, sc["prefix"], (), ctx, None)
    F = os.path.join(sb, "F")
    try:
        with simproc.quiet():
            node0.k.write_config(F, save_old=False)
    except Exception as e:
        ctx.counters["op_raised:write_config/" + type(e).__name__] += 1
        return
    ftext = open(F, encoding="utf-8", errors="surrogateescape").read()
    fminus = kgen.strip_default_marked(ftext)
    Fm = os.path.join(sb, "F_minus")
    with builtins.open(Fm, "w", encoding="utf-8", errors="surrogateescape") as f:
        f.write(fminus)
    entries = parse_entries(ftext)
    upgrade = sc["mode"] == "upgrade" and sc.get("prog2")
    text2 = kgen.render(sc["prog2"]) if upgrade else text1
    tag2 = "new" if upgrade else "old"
    policy = sc["policy"] or "sdkconfig"

    def boot(pol="same"):
        n = ops.KNode(sb, text2, parser=sc["parser"], policy=sc["policy"] if pol == "same" else pol, tag=tag2)
        ops.run_history(n, sc["used"], (), None, None)
        return n

    def load(n, path):
        with simproc.quiet():
            n.k.load_config(path, replace=True)

    A, B = boot(), boot()
    # A load must not depend on what happened to be cached before it: a third node gets the same used history, then
    # everything is read in the warm node (all caches filled) and everything is dropped in the cold one; both load F.
    C = boot() if sc["used"] else None
    if C is not None:
        ops.view(A.k)
        with simproc.quiet():
            C.k._invalidate_all()
    try:
        load(A, F)
        load(B, Fm)
        if C is not None:
            load(C, F)
    except Exception as e:
        import traceback

        fn = traceback.extract_tb(e.__traceback__)[-1].name
        ctx.counters["op_raised:load/%s/%s" % (type(e).__name__, fn)] += 1
        return
    kA, kB = A.k, B.k
    stage = "same-tree" if not upgrade else "upgrade/" + policy
    used = "used-instance" if sc["used"] else "fresh-instance"

    def mech(names):
        inj = set(ops.injected(kA))
        for n in names:
            s = kA.syms.get(n)
            if n in inj or (s is not None and s.choice is not None and any(("<choice %d>" % i) in inj for i, c in enumerate(kA.unique_choices) if c is s.choice)):
                return "injected-default"
        for n in names:
            if n.startswith("<choice"):
                return "choice"
            s = kA.syms.get(n)
            if s is not None and s.choice is not None:
                return "choice-member"
        return "plain"

    def compare(where, markers=True):
        va, vb = ops.view(kA), ops.view(kB)
        if not markers:
            va = {n: v[:3] for n, v in va.items()}
            vb = {n: v[:3] for n, v in vb.items()}
        if va != vb:
            d = ops.diff_views(va, vb)
            ctx.violate(f"C08/twin-differs/{stage}/{mech([x[0] for x in d])}/{used}",
                        f"{where}: node(load F) and node(load F without default-marked entries) differ: {d}")
            return False
        return True

    if C is not None:
        ctx.counters["probe:warm-vs-cold-load"] += 1
        va, vc = ops.view(kA), ops.view(C.k)
        ra = sorted(map(str, kA.report.area_to_instance[core.DefaultValuesArea].changed_defaults))
        rc = sorted(map(str, C.k.report.area_to_instance[core.DefaultValuesArea].changed_defaults))
        ia, ic = sorted(ops.injected(kA)), sorted(ops.injected(C.k))
        if va != vc or ia != ic:
            ctx.violate(f"C08/load-depends-on-cached-state/{stage if False else ('upgrade' if upgrade else 'same-tree')}",
                        f"loading F into the used instance gives another result when everything was read before than when all caches "
                        f"were dropped before: {ops.diff_views(va, vc)} injected {ia} vs {ic} records {ra[:3]} vs {rc[:3]}")
    twin_expected = (not upgrade) or policy == "kconfig"
    if twin_expected:
        compare("after load")
    # user/default status of the entries (clause 1, second half)
    if not upgrade:
        for name, raw, marked in entries:
            s = kA.syms.get(name)
            if s is None or not s.nodes:
                continue
            if marked and s._user_value is not None and not s.choice:
                ctx.violate("C08/marked-entry-became-user-value", f"{name} is default-marked in the file but has user value {s._user_value!r} after the load")
            if not marked and s._user_value is None and any(n.prompt for n in s.nodes):
                val = _file_value(s, raw)
                if val is not None and s.value_is_valid(core.STR_TO_BOOL[val] if s.orig_type == core.BOOL else val):
                    ctx.violate("C08/unmarked-entry-not-user-value", f"{name}={raw} is unmarked in the file but has no user value after the load")
    else:
        ctx.counters["probe:upgrade/" + policy] += 1
        dv = kA.report.area_to_instance[core.DefaultValuesArea]
        recorded = {r[0] for r in dv.changed_defaults}
        # twin under the other policy for the context-free report clause
        other = "kconfig" if policy == "sdkconfig" else "sdkconfig"
        K = boot(other)
        try:
            load(K, F)
        except Exception:
            K = None
        kcfg = (K.k if policy == "sdkconfig" else kA) if K else None  # the node that ignored the entries
        recorded_other = {r[0] for r in K.k.report.area_to_instance[core.DefaultValuesArea].changed_defaults} if K else set()
        for name, raw, marked in entries:
            s = kA.syms.get(name)
            if not marked or s is None or not s.nodes or s.choice is not None:
                continue
            if not any(n.prompt for n in s.nodes):
                continue
            val = _file_value(s, raw)
            if val is None:
                continue
            with simproc.quiet():
                vis = s.visibility
                cur = s.str_value
            if policy == "sdkconfig":
                ok_form = s.value_is_valid(core.STR_TO_BOOL[val] if s.orig_type == core.BOOL else val)
                forced = s._has_active_indirect_set or (s.orig_type == core.BOOL and core.STR_TO_BOOL[val] not in s.assignable and len(s.assignable) > 0)
                if vis and ok_form and not forced and s._user_value is None and (s.orig_type in (core.BOOL, core.STRING) or _in_range(s, val)):
                    if s.orig_type == core.BOOL and not s.assignable:
                        continue
                    if not _same_value(s, cur, val):
                        try:
                            via = ("overridden-by-set-default" if any(core.expr_value(c) for _, c, _ in s.weak_rev_values) else
                                   "overridden-by-imply" if (s.orig_type == core.BOOL and core.expr_value(s.weak_rev_dep)) else
                                   "depends-on-choice-member" if _reaches_choice_member(s) else "plain")
                        except Exception:
                            via = "plain"
                        ctx.violate(f"C08/sdkconfig-policy/stored-default-not-kept/{via}",
                                    f"{name}: stored default {val!r} is valid for the visible option but its value is {cur!r}")
                    ctx.counters["probe:stored-default-checked"] += 1
                if s._user_value is not None:
                    ctx.violate("C08/marked-entry-became-user-value", f"{name} is default-marked in the file but has user value {s._user_value!r} after the load")
            # context-free: both policies must report the mismatch
            if kcfg is not None and _context_free(sc["prog2"], name) and _context_free(sc["prog"], name):
                ks = kcfg.syms.get(name)
                with simproc.quiet():
                    kval = ks.str_value
                    kvis = ks.visibility
                if kvis and not _same_value(ks, kval, val) and ks._user_value is None:
                    ctx.counters["probe:context-free-mismatch"] += 1
                    for pol, rec in ((policy, recorded), (other, recorded_other)):
                        if name not in rec:
                            ctx.violate(f"C08/mismatch-not-reported/{pol}", f"{name}: stored default {val!r} differs from the Kconfig default {kval!r} "
                                        f"but policy {pol} holds no DefaultValuesArea record for it")
    # choices: the stored default selection (exactly one default-marked member at y)
    if upgrade and policy == "sdkconfig":
        inj_syms = [n for n in ops.injected(kA) if not n.startswith("<choice")]
        inj_choices = simproc.injected_choices(kA)
        for ci, c in enumerate(kA.unique_choices):
            stored = [nm for nm, raw, marked in entries if marked and raw.startswith("y") and nm in kA.syms and kA.syms[nm].choice is c]
            if len(stored) != 1 or c._user_selection is not None:
                continue
            m = kA.syms[stored[0]]
            with simproc.quiet():
                cvis, mvis, sel = c.visibility, m.visibility, c.selection
            if cvis and mvis:
                ctx.counters["probe:stored-choice-default-checked"] += 1
                if sel is not m:
                    ctx.violate("C08/sdkconfig-policy/stored-choice-default-not-kept",
                                f"choice #{ci}: stored default selection {m.name} is visible but the selection is {sel.name if sel else None}")
            elif cvis and not mvis and not inj_syms and inj_choices == [ci]:
                # nothing else was injected, so the member was invisible when the choice was resolved as well
                ctx.violate("C08/sdkconfig-policy/invisible-stored-choice-default-injected",
                            f"choice #{ci}: stored default selection {m.name} is not visible in the new tree but was injected as the choice's default "
                            f"(selection now {sel.name if sel else None})")
    # promptless entries are always ignored
    Fp = os.path.join(sb, "F_nopromptless")
    ptext = strip_promptless(ftext, kA)
    if ptext != ftext:
        ctx.counters["probe:promptless-entries"] += 1
        with builtins.open(Fp, "w", encoding="utf-8", errors="surrogateescape") as f:
            f.write(ptext)
        C = boot()
        try:
            load(C, Fp)
            va, vc = ops.view(kA), ops.view(C.k)
            if va != vc:
                ctx.violate(f"C08/promptless-entry-has-effect/{stage}", f"removing the entries of promptless options from the file changes the result: {ops.diff_views(va, vc)}")
        except Exception as e:
            ctx.counters["op_raised:load-nopromptless/" + type(e).__name__] += 1
    # edits, step-locked
    changed = 0
    v_prev = ops.values(kA)
    for i, op in enumerate(sc["edits"]):
        try:
            A.apply(op)
            B.apply(op)
        except ops.OpRaised as e:
            ctx.counters["op_raised:edit/" + type(e.exc).__name__] += 1
            break
        ctx.events += 1
        if op[0] == "read":
            continue
        if twin_expected and not compare(f"after edit {i} {op[:3]}"):
            break
        v_now = ops.values(kA)
        if v_now != v_prev:
            changed += 1
        v_prev = v_now
    nmarked = sum(1 for e in entries if e[2])
    if sc["used"]:
        ctx.counters["probe:used-instance"] += 1
    if ops.injected(kA):
        ctx.counters["probe:default-injected"] += 1
    ctx.ev("c08", stage, digest(ftext), sorted(ops.values(kA).items()))
    ctx.nontrivial = nmarked > 0 and nmarked < len(entries) and changed > 0
    ctx.key = digest((kgen.prog_shape(sc["prog"]), kgen.prog_shape(sc["prog2"]) if upgrade else None, ftext, policy, sorted(ops.values(kA).items())))


def reductions(sc):
    for key in ("edits", "used", "prefix"):
        yield from common.list_reductions(sc, key)
    yield from common.prog_reductions(sc)
