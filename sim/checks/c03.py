"""C03 - incremental re-evaluation equals evaluation from scratch (DESIGN.md 4, C03).

The schedule being searched is the placement of *reads* between writes (a stale
cache entry exists only if that option was read before the write that should
have invalidated it), the read order, and the set-iteration order.
"""
import copy

from .. import kgen, ops, simproc
from ..rng import derive, digest
from . import common

ID = "C03"
LEVEL = "exploration"
BATCH = 50
PROBES_EXPECTED = ['probe:read-before-later-write', 'probe:twin-compared', 'probe:default-injected-by-load']
TIERS = {"quick": {"runs": 14000, "wall": 50}, "thorough": {"runs": 600000, "wall": 840}}
RULE = ("each run draws a program, knobs (parser, policy, set-order salt) and a history of 4-30 set/unset/reset/reset-menu/load/restart "
        "operations interleaved with partial reads (drawn subset, order and attributes; 40% aimed at options other expressions mention); "
        "at the end: full view in order p1, _invalidate_all(), full view in order p2 (oracle a); a fresh twin receives the final user state "
        "through the public setters in a drawn order (oracle b, only when no default was injected by a load); the same history replayed under "
        "another set-order salt (oracle c). non-trivial = >=1 read preceded a later write and the final view differs from the initial one; "
        "distinct = digest of (program shape, op kinds, final view)")
REAL = ["esp_kconfiglib.core: Kconfig._build_dep/_depend_on, Symbol/Choice._rec_invalidate, set_value/unset_value, _restore_default, "
        "_inject_default_value, load_config, all value/visibility/assignable/selection caches"]
STUB = ["no faults (the property has none); scheduler = seeded placement/order of reads and writes; set-iteration order = seeded SimHash salt"]
ASSUMPTIONS = ["the fresh-instance comparison transplants user state per choice as: non-selected y members, the user selection last among the y's, then the n's, then the mode",
               "oracle (b) is skipped when a load injected an sdkconfig default (the statement's own restriction); (a) and (c) always apply"]
TECHNIQUE = "deterministic simulation: seeded interleaving of writes with partial reads, cached view vs. view after _invalidate_all() vs. fresh twin with transplanted user state vs. replay under another set-iteration order"
DESIGN_REF = "DESIGN.md section 4, C03"
LEVEL_TEXT = ("Seeded exploration of write/read interleavings over generated programs; three from-scratch oracles at the final checkpoint and at "
              "sparse interior checkpoints. Sampling, not enumeration.")


def generate(r, tier):
    big = tier == "thorough"
    if r.random() < 0.33:
        # swarm focus: small programs dense in reverse dependencies (select/imply/set with option values)
        prog = kgen.gen_program(r, lo=3, hi=7, feats=["set", "setdefault", "select", "imply"] + [f for f in ("choice", "menu", "if") if r.random() < 0.3],
                                types=[kgen.BOOL, kgen.BOOL, kgen.STRING, kgen.STRING, kgen.INT], p_rev=3.0, p_bare=0.4)
    else:
        prog = kgen.gen_program(r, hi=20 if big else 12)
    sc = {"prog": prog, "parser": kgen.pick_parser(r, prog, 0.05), "hash_salt": r.getrandbits(32), "salt2": r.getrandbits(32),
          "policy": r.choice([None, None, "kconfig"])}
    hand = [kgen.handwritten(r, prog) for _ in range(r.randint(0, 2))]
    sc["hand"] = hand
    sc["ops"] = ops.gen_history(r, prog, r.randint(4, 30), weights={"edge": 25, "read": 25, "save": 4, "load": 5, "restart": 2, "reset": 10, "reset_menu": 4, "load_bad": 2, "stale_merge": 2, "stale_chain": 3},
                                hand_n=len(hand))
    n = len(sc["ops"])
    sc["checkpoints"] = sorted(r.sample(range(1, n + 1), r.choice([0, 0, 1]))) if n > 1 else []
    sc["vseed"] = r.getrandbits(32)
    # read schedule: "rationed" (only the history's own reads fill the caches) or "warm" (everything is read after every
    # operation and compared with a shadow node that evaluates from scratch each time)
    sc["warm"] = r.random() < 0.35
    return sc


def summarize(sc):
    s = {k: v for k, v in sc.items() if k != "prog"}
    s["kconfig"] = kgen.render(sc["prog"])
    return s


def _classify(k, names):
    """Mechanism class of a stale entry: which construct links it to the writer."""
    core = simproc.core
    for n in names:
        if n.startswith("<choice"):
            return "choice"
        s = k.syms.get(n)
        if s is None:
            continue
        if s.rev_values or s.weak_rev_values:
            return "set-target"
        if s.choice:
            return "choice-member"
        if s.rev_dep is not k.n or s.weak_rev_dep is not k.n:
            return "select-imply-target"
        if s.ranges:
            return "ranged"
    return "plain"


def oracle_a(node, ctx, r, where):
    k = node.k
    s1 = ops.view(k, r)
    with simproc.quiet():
        k._invalidate_all()
    s2 = ops.view(k, r)
    if s1 != s2:
        d = ops.diff_views(s1, s2)
        fields = sorted({["value", "visibility", "assignable", "config_string"][i] if not n.startswith("<") else "selection"
                         for n, a, b in d for i in range(min(len(a), 4)) if a[i] != b[i]})
        ctx.violate(f"C03/stale-cache/{_classify(k, [x[0] for x in d])}/{'+'.join(fields)}",
                    f"{where}: cached view differs from the view after _invalidate_all(): {d}")
    return s2


def execute(sc, ctx):
    sb = ctx.fresh_dir()
    text = kgen.render(sc["prog"])
    node = ops.KNode(sb, text, parser=sc["parser"], policy=sc["policy"])
    r = derive(sc["vseed"], "C03", 0, "view")
    initial = ops.view(node.k)
    cps = set(sc.get("checkpoints", []))
    reads_then_writes = [False, False]
    model = ops.UserModel(node.k)

    shadow = ops.KNode(ctx.fresh_dir("sbw"), text, parser=sc["parser"], policy=sc["policy"]) if sc.get("warm") else None
    warm_state = {"dead": False}
    if shadow is not None:
        ctx.counters["probe:warm-shadow-run"] += 1

    def warm_compare(i, op):
        """Everything is cached in the primary at all times, so an entry is stale exactly when an invalidation was missed;
        the shadow gets the same operation and is evaluated from scratch (this comparison never heals the primary)."""
        if warm_state["dead"]:
            return
        try:
            shadow.apply(op, sc["hand"])
        except ops.OpRaised:
            warm_state["dead"] = True
            return
        v1 = ops.view(node.k)
        with simproc.quiet():
            shadow.k._invalidate_all()
        v2 = ops.view(shadow.k)
        if v1 != v2:
            d = ops.diff_views(v1, v2)
            fields = sorted({["value", "visibility", "assignable", "config_string"][j] if not n.startswith("<") else "selection"
                             for n, a, b in d for j in range(min(len(a), 4)) if a[j] != b[j]})
            ctx.violate(f"C03/stale-cache/{_classify(node.k, [x[0] for x in d])}/{'+'.join(fields)}",
                        f"after op {i} {op[:3]} (everything cached): the view differs from a shadow node evaluated from scratch: {d}")
            warm_state["dead"] = True

    def after(i, op):
        model.apply(op, sc["hand"], node)
        if shadow is not None:
            warm_compare(i, op)
        if op[0] == "read":
            reads_then_writes[0] = True
        elif reads_then_writes[0] and op[0] in ("set", "unset", "reset", "reset_menu", "cunset", "load", "load_hand", "load_bad"):
            reads_then_writes[1] = True
        if (i + 1) in cps:
            oracle_a(node, ctx, r, f"checkpoint after op {i}")

    done = ops.run_history(node, sc["ops"], sc["hand"], ctx, after)
    if done < len(sc["ops"]):
        ctx.ev("cut", done)
    k = node.k
    final = oracle_a(node, ctx, r, "final")
    inj = ops.injected(k)
    if inj:
        ctx.counters["probe:default-injected-by-load"] += 1
    else:
        # (b) fresh twin with the final user state
        st = ops.user_state(k, model)
        if st["from_model"]:
            ctx.counters["probe:user-state-known-to-history-model"] += 1
        tw = node.twin()
        try:
            ops.transplant(tw.k, st, r)
            s3 = ops.view(tw.k)
            if s3 != final:
                d = ops.diff_views(final, s3)
                ctx.violate(f"C03/twin-differs/{_classify(k, [x[0] for x in d])}",
                            f"a fresh instance with the same final user values and choice picks shows a different view: {d}; user state {st}")
            ctx.counters["probe:twin-compared"] += 1
        except Exception as e:
            ctx.counters["op_raised:twin/" + type(e).__name__] += 1
    # (c) the same history under another set-iteration order
    simproc.install_simhash(sc["salt2"])
    node2 = ops.KNode(ctx.fresh_dir("sb2"), text, parser=sc["parser"], policy=sc["policy"])
    done2 = ops.run_history(node2, sc["ops"], sc["hand"], None, None)
    with simproc.quiet():
        node2.k._invalidate_all()
    s4 = ops.view(node2.k)
    if done2 == done and s4 != final:
        ctx.violate("C03/set-order-dependent", f"the same history under another set-iteration order ends in a different view: {ops.diff_views(final, s4)}")
    if reads_then_writes[1]:
        ctx.counters["probe:read-before-later-write"] += 1
    ctx.ev("c03", done, sorted(final.items()))
    ctx.nontrivial = reads_then_writes[1] and final != initial
    ctx.key = digest((kgen.prog_shape(sc["prog"]), [o[0] for o in sc["ops"]], sorted(final.items())))


def reductions(sc):
    yield from common.list_reductions(sc, "ops")
    if sc.get("checkpoints"):
        c = copy.deepcopy(sc)
        c["checkpoints"] = []
        yield c
    if sc.get("warm"):
        c = copy.deepcopy(sc)
        c["warm"] = False
        yield c
    yield from common.prog_reductions(sc)
