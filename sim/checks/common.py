"""Helpers shared by the checks: program reductions for the shrinker, thin
adapters that reach a save through the config server / menuconfig code paths."""
import copy
import types

from .. import kgen, simproc


def _paths(items, prefix=()):
    for i, it in enumerate(items):
        yield prefix + (i,)
        if "items" in it:
            yield from _paths(it["items"], prefix + (i, "items"))


def _get(items, path):
    cur = items
    for p in path[:-1]:
        cur = cur[p]
    return cur, path[-1]


def prog_reductions(sc, keys=("prog", "prog2")):
    """Scenarios with one program entry removed / hoisted / simplified."""
    for key in keys:
        prog = sc.get(key)
        if not prog:
            continue
        paths = list(_paths(prog["items"]))
        # remove entries, last first (later entries are referenced less)
        for path in reversed(paths):
            c = copy.deepcopy(sc)
            cont, idx = _get(c[key]["items"], path)
            it = cont[idx]
            del cont[idx]
            yield c
            if "items" in it and it["items"]:
                # hoist children in place of the container
                c = copy.deepcopy(sc)
                cont, idx = _get(c[key]["items"], path)
                it = cont[idx]
                if it["k"] != "choice":
                    cont[idx:idx + 1] = it["items"]
                    yield c
        # simplify attributes
        for path in paths:
            cont, idx = _get(prog["items"], path)
            it = cont[idx]
            for attr in ("defaults", "ranges", "selects", "implies", "sets", "depends"):
                if it.get(attr):
                    for j in range(len(it[attr])):
                        if attr == "defaults" and it.get("type") in ("int", "hex", "float") and it[attr][j][1] is None and \
                                sum(1 for d in it[attr] if d[1] is None) == 1:
                            continue  # every numeric option keeps its fallback default (the quantifiers require one)
                        c = copy.deepcopy(sc)
                        cc, ii = _get(c[key]["items"], path)
                        del cc[ii][attr][j]
                        yield c
            for attr in ("prompt_cond", "visible_if", "warning"):
                if it.get(attr):
                    c = copy.deepcopy(sc)
                    cc, ii = _get(c[key]["items"], path)
                    cc[ii][attr] = None
                    yield c
            if it.get("help"):
                c = copy.deepcopy(sc)
                cc, ii = _get(c[key]["items"], path)
                cc[ii]["help"] = False
                yield c


def list_reductions(sc, key):
    """Drop halves, then single elements of sc[key]."""
    xs = sc.get(key) or []
    n = len(xs)
    if n > 3:
        for a, b in ((0, n // 2), (n // 2, n)):
            c = copy.deepcopy(sc)
            del c[key][a:b]
            yield c
    for i in reversed(range(n)):
        c = copy.deepcopy(sc)
        del c[key][i]
        yield c


def server_save(k, dest, dep=True):
    import kconfserver.core as ks

    with simproc.quiet():
        err = ks.handle_request(k, {"version": 2, "save": dest})
    return err


def menuconfig_save(k, dest):
    from esp_menuconfig.app import MenuConfigApp

    notes = []
    fake = types.SimpleNamespace(state=types.SimpleNamespace(kconf=k, saved=False), notify=lambda *a, **kw: notes.append(a))
    with simproc.quiet():
        return MenuConfigApp._do_save(fake, dest)
