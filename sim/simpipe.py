"""simpipe - the config server and its client in one thread (DESIGN.md 2.5).

`run_server()` is a blocking `while True: line = sys.stdin.readline()` loop.  It
runs synchronously, by inversion of control: the fake stdin's readline() *is*
the client.  When the server asks for the next line, the client first consumes
whatever the server wrote to the fake stdout since the last call (must be
exactly one newline-terminated JSON line per request line), hands it to the
session's `on_reply`, and returns the next request line - or "" (EOF).
"""
import io
import json
import os
import sys

from . import simproc


class ProtocolError(Exception):
    """The server broke the one-line-per-line / pure-JSON stdout contract."""

    def __init__(self, kind, detail):
        super().__init__(kind + ": " + detail)
        self.kind = kind
        self.detail = detail


class ServerDied(Exception):
    def __init__(self, exc, fn, after_line):
        super().__init__(f"{type(exc).__name__}: {exc} in {fn} after request line {after_line!r}")
        self.exc = exc
        self.fn = fn
        self.after_line = after_line


class _KconfiglibProxy:
    """Stands in for `kconfserver.core.kconfiglib` to capture the server's Kconfig."""

    def __init__(self, real, sink):
        self._real = real
        self._sink = sink

    def __getattr__(self, n):
        return getattr(self._real, n)

    def Kconfig(self, *a, **kw):
        simproc.fresh_report()
        simproc.next_process()
        k = self._real.Kconfig(*a, **kw)
        self._sink.append(k)
        simproc.BOOT_CHOICE_DEFAULTS[id(k)] = (k, [list(c.defaults) for c in k.unique_choices])
        return k


class Session:
    """One server node.  `lines` is an iterator/callable producing request lines
    (str without newline) given the session; `on_reply(i, line, reply_obj)` is
    called with every parsed reply (i = -1 for the initial message)."""

    def __init__(self, kconfig_path, sdkconfig_path, rename=None, version=3, parser=1, policy=None, extra_env=None, pipes=None, verbosity="quiet"):
        # the standard streams are real text layers over in-memory byte pipes, configured like a deployment's:
        # (stdin errors, stdout encoding) - ("strict", "utf-8") is what a UTF-8 locale gives; ("surrogateescape", "utf-8") the
        # C/POSIX locale and PYTHONUTF8=1; other stdout encodings come from PYTHONIOENCODING / legacy locales / code pages
        self.stdin_errors, self.stdout_encoding = pipes or ("strict", "utf-8")
        self.kconfig_path = kconfig_path
        self.sdkconfig_path = sdkconfig_path
        self.rename = rename
        self.version = version
        self.env = {"KCONFIG_PARSER_VERSION": parser, "KCONFIG_DEFAULTS_POLICY": policy, "KCONFIG_REPORT_VERBOSITY": verbosity,
                    "IDF_TARGET": "esp32", "IDF_VERSION": "v9.9"}
        if extra_env:
            self.env.update(extra_env)
        self.kconfigs = []
        self.replies = []
        self.initial = None
        self.sent = []
        self.stderr_text = ""
        self.stdout_text = ""

    @property
    def k(self):
        return self.kconfigs[-1] if self.kconfigs else None

    def run(self, next_line, on_reply=None):
        """next_line(session, i) -> str | None (EOF).  Returns normally at EOF;
        raises ServerDied / ProtocolError."""
        import kconfserver.core as ks

        class PipeSink(io.RawIOBase):
            """The write end of the stdout pipe: only what the server has *flushed* arrives here."""

            def __init__(self_inner):
                self_inner.data = bytearray()

            def writable(self_inner):
                return True

            def write(self_inner, b):
                self_inner.data += bytes(b)
                return len(b)

        out_sink = PipeSink()
        # like sys.stdout on a pipe: block-buffered, not line-buffered - a reply the server does not flush is not sent
        out = io.TextIOWrapper(io.BufferedWriter(out_sink, buffer_size=8192), encoding=self.stdout_encoding, errors="strict",
                               newline="\n", line_buffering=False, write_through=False)
        err_bytes = io.BytesIO()
        err = io.TextIOWrapper(err_bytes, encoding="utf-8", errors="backslashreplace", newline="\n", write_through=True)
        sess = self
        state = {"pos": 0, "i": -1, "last": None}

        def consume():
            raw = bytes(out_sink.data[state["pos"]:])
            state["pos"] += len(raw)
            try:
                text = raw.decode(self.stdout_encoding)
            except UnicodeDecodeError:
                raise ProtocolError("not-decodable", f"after line #{state['i']} {state['last']!r} the server wrote {raw[:200]!r}")
            if not text.endswith("\n") or text.count("\n") != 1:
                raise ProtocolError("not-one-line" if text else "no-reply",
                                    f"after line #{state['i']} {state['last']!r} the server wrote {text[:300]!r}")
            try:
                obj = json.loads(text)
            except ValueError:
                raise ProtocolError("not-json", f"after line #{state['i']} {state['last']!r}: {text[:300]!r}")
            if not isinstance(obj, dict) or "version" not in obj:
                raise ProtocolError("not-a-protocol-object", f"after line #{state['i']}: {text[:300]!r}")
            if state["i"] < 0:
                sess.initial = obj
            else:
                sess.replies.append(obj)
            if on_reply is not None:
                on_reply(state["i"], state["last"], obj)

        class ClientRaw(io.RawIOBase):
            """The client end of the stdin pipe: every read by the server first lets the client consume the reply to the
            previous line, then delivers exactly one request line (bytes)."""

            pending = b""

            def readable(self_inner):
                return True

            def readinto(self_inner, b):
                if not self_inner.pending:
                    consume()
                    state["i"] += 1
                    ln = next_line(sess, state["i"])
                    if ln is None:
                        state["last"] = None
                        return 0
                    state["last"] = ln
                    sess.sent.append(ln)
                    data = ln if isinstance(ln, bytes) else ln.encode("utf-8", "surrogatepass")
                    self_inner.pending = data + b"\n"
                n = min(len(b), len(self_inner.pending))
                b[:n] = self_inner.pending[:n]
                self_inner.pending = self_inner.pending[n:]
                return n

        stdin = io.TextIOWrapper(io.BufferedReader(ClientRaw()), encoding="utf-8", errors=self.stdin_errors, newline=None)

        from esp_pylib.logger import log as _log

        # The package binds the note/hint/debug channel to the stderr object that exists when it is imported.  In a real
        # server process that is the process's stderr; in this node it is `err`.  Only an existing binding is carried over:
        # if the code under test never bound the channel, its output goes where the logger's default sends it (stdout).
        old_info, old_verbosity = getattr(_log, "_info_stream", None), getattr(_log, "_verbosity", None)
        if old_info is not None:
            _log.set_info_stream(err)
        real_kl = ks.kconfiglib
        ks.kconfiglib = _KconfiglibProxy(real_kl, self.kconfigs)
        old = sys.stdin, sys.stdout, sys.stderr
        sys.stdin, sys.stdout, sys.stderr = stdin, out, err
        cwd = os.getcwd()
        os.chdir(os.path.dirname(os.path.abspath(self.kconfig_path)))  # relative paths stay inside the sandbox
        try:
            with simproc.env(**self.env):
                try:
                    ks.run_server(self.kconfig_path, self.sdkconfig_path, self.rename, default_version=self.version)
                except (ProtocolError, simproc_crash()):
                    raise
                except SystemExit as e:
                    raise ServerDied(e, "exit", state["last"])
                except Exception as e:
                    import traceback

                    tb = traceback.extract_tb(e.__traceback__)
                    fn = next((f.name for f in reversed(tb) if "kconfserver" in f.filename), tb[-1].name if tb else "?")
                    raise ServerDied(e, fn, state["last"])
        finally:
            os.chdir(cwd)
            sys.stdin, sys.stdout, sys.stderr = old
            ks.kconfiglib = real_kl
            if old_info is not None:
                _log.set_info_stream(old_info)
            _log.set_verbosity(old_verbosity if old_verbosity is not None else "silent")
            self.stderr_text = err_bytes.getvalue().decode("utf-8", "replace")
            self.stdout_text = bytes(out_sink.data).decode(self.stdout_encoding, "replace")
            simproc.scrub_env()


def simproc_crash():
    from .simfs import SimCrash

    return SimCrash


class Replica:
    """The documented client: four dictionaries updated by plain dict.update."""

    def __init__(self, version):
        self.version = version
        self.values, self.ranges, self.visible, self.defaults = {}, {}, {}, {}

    def apply(self, reply, is_initial=False, was_load=False):
        if "values" not in reply:
            return  # error-only reply
        if self.version == 1:
            if is_initial or was_load:
                # v1: the response to load (and the initial message) is the full set
                self.values = {}
                self.ranges = {}
            for k, v in reply.get("values", {}).items():
                self.values[k] = v
            self.ranges.update({k: tuple(v) for k, v in reply.get("ranges", {}).items()})
            return
        self.values.update(reply.get("values", {}))
        self.ranges.update({k: tuple(v) for k, v in reply.get("ranges", {}).items()})
        self.visible.update(reply.get("visible", {}))
        if self.version >= 3:
            self.defaults.update(reply.get("defaults", {}))


def snapshot(k):
    """What a newly started server reports for this configuration (the server's own functions)."""
    import kconfgen.core as kg
    import kconfserver.core as ks

    with simproc.quiet():
        return {"values": kg.get_json_values(k), "ranges": {a: tuple(b) for a, b in ks.get_ranges(k).items()}, "visible": ks.get_visible(k),
                "defaults": ks.get_sym_default_value_dict(k)}
