"""srvgen - request descriptors for the config-server simulations (C14, C15).

A descriptor is a JSON-able dict; `concretise()` turns it into the request line
using the session's version, the sandbox paths and the menu ids of the initial
message.  Keys: set {name: json}, reset [name | {"menu": i} | "all" | unknown id],
load / save spec (None | ["slot",k] | ["hand",i] | ["tool",j] | ["missing"] | ["dir"]),
raw (a literal, possibly non-JSON line), version (override; "absent" drops the key).
"""
import json
import os

from . import kgen


def json_value(r, t, sane=0.85):
    """A JSON value for an option of type t: documented formats, and wrong ones."""
    ok = r.random() < sane
    if t == kgen.BOOL:
        return r.choice([True, False]) if ok else r.choice(["y", 1, 0, None, "true", [], 2.5])
    if t == kgen.INT:
        return r.choice([0, 1, 7, 12, 49, 50, 51, 123, -1, -3]) if ok else r.choice(["12", "abc", 3.0, 2.5, None, True, [1], {"a": 1}, 2 ** 70, "", "--5", "\u00b2"])
    if t == kgen.HEX:
        return r.choice([0, 1, 31, 63, 64, 65, 16, "1F", "3f", "0x10"]) if ok else r.choice([-1, "zz", 2.5, None, True, [], "", "0x", 2 ** 70, 1e3])
    if t == kgen.FLOAT:
        return r.choice([0.5, 1.5, 5, 15.5, 25.5, 3.25, "1.5", 1e1]) if ok else r.choice(["nan", "inf", "1,5", None, True, [], "", 1e308, -0.0])
    # incl. text outside latin-1 and a lone surrogate (legal in JSON as "\ud83d": a client that cut a string inside an emoji)
    return r.choice(["a", "hello", 'q"t', "b\\c", "", "ab", " sp ", "# default:", "éß", "\u4e2d\u6587", "caf\u00e9 \ud83d"]) if ok else r.choice([5, None, True, 1.5, [], {"x": 1}])


def gen_requests(r, prog, n, version, hand_n=0, tool_n=0, sane=0.85, w=None, alt=False):
    tab = kgen.sym_table(prog)
    names = list(tab)
    hot = [a for a, b, _ in kgen.dep_edges(prog)] or names
    weights = {"set": 50, "reset": 14 if version >= 3 else 3, "load": 8, "save": 8, "combo": 6, "edge": 14}
    if w:
        weights.update(w)
    kinds = [k for k, v in weights.items() for _ in range(v)]
    reqs = []
    saved = set()

    def set_part():
        d = {}
        for _ in range(r.choice([1, 1, 1, 2, 3, 4])):
            if r.random() < 0.05:
                d["NO_SUCH_%d" % r.randint(0, 2)] = r.choice([True, 5, "x"])
            elif names:
                nm = r.choice(hot if r.random() < 0.5 else names)
                d[nm] = json_value(r, tab[nm]["type"], sane)
        return d

    def reset_part():
        items = []
        for _ in range(r.choice([1, 1, 2])):
            k = r.random()
            if k < 0.55 and names:
                items.append(r.choice(names))
            elif k < 0.8:
                items.append({"menu": r.randint(0, 5)})
            elif k < 0.9:
                items.append("all")
            elif k < 0.95:
                items.append("no-such-menu-%d" % r.randint(0, 3))
            else:
                items.append("NO_SUCH_SYM")
        return items

    def load_spec():
        k = r.random()
        if alt and r.random() < 0.3:
            return ["alt"]
        if k < 0.3:
            return None
        if k < 0.55 and saved:
            return ["slot", r.choice(sorted(saved))]
        if k < 0.75 and tool_n:
            return ["tool", r.randrange(tool_n)]
        if k < 0.92 and hand_n:
            return ["hand", r.randrange(hand_n)]
        return ["missing"]

    def save_spec():
        if r.random() < 0.5:
            return None
        s = r.randrange(3)
        saved.add(s)
        return ["slot", s]

    edges = kgen.dep_edges(prog)
    for _ in range(n):
        kind = r.choice(kinds)
        if kind == "set":
            reqs.append({"set": set_part()})
        elif kind == "edge" and edges:
            a, b, en = r.choice(edges)
            if en and r.random() < 0.5:
                reqs.append({"set": {en: True}})
            reqs.append({"set": {a: json_value(r, tab[a]["type"], 0.95)}})
        elif kind == "reset":
            reqs.append({"reset": reset_part()})
        elif kind == "load":
            reqs.append({"load": load_spec()})
        elif kind == "save":
            reqs.append({"save": save_spec()})
        elif kind == "combo":
            d = {}
            if r.random() < 0.4:
                d["load"] = load_spec()
            if r.random() < 0.8:
                d["set"] = set_part()
            if r.random() < (0.4 if version >= 3 else 0.15):
                d["reset"] = reset_part()  # (below version 3 the part is refused - and only that part)
            if r.random() < 0.4:
                d["save"] = save_spec()
            if d:
                reqs.append(d)
    return reqs


def resolve_path(spec, sb, default=None):
    if spec is None:
        return None
    kind = spec[0]
    if kind == "slot":
        return os.path.join(sb, "srv_slot_%d" % spec[1])
    if kind == "hand":
        return os.path.join(sb, "hand_%d" % spec[1])
    if kind == "tool":
        return os.path.join(sb, "tool_%d" % spec[1])
    if kind == "alt":
        return os.path.join(sb, "tool_alt")
    if kind == "missing":
        return os.path.join(sb, "does", "not", "exist")
    if kind == "dir":
        d = os.path.join(sb, "adir")
        if not os.path.lexists(d):
            os.makedirs(d)
            with open(os.path.join(d, "keep"), "w"):
                pass
        return d
    if kind in ("eacces-r", "eacces-w", "enospc"):
        return os.path.join(sb, "fault_" + kind.replace("-", "_"))
    if kind == "literal":
        v = spec[1]
        if isinstance(v, str) and v and not os.path.isabs(v):
            return os.path.join(sb, "lit_" + v.replace(os.sep, "_"))  # keep literal file names inside the sandbox
        return v
    return default


def concretise(desc, version, sb, menu_ids):
    """Descriptor -> request line (str)."""
    if "raw" in desc:
        return desc["raw"]
    if "rawhex" in desc:
        return bytes.fromhex(desc["rawhex"])  # a line of bytes (not necessarily UTF-8)
    req = {}
    v = desc.get("version", version)
    if v != "absent":
        req["version"] = v
    if "load" in desc:
        req["load"] = resolve_path(desc["load"], sb) if isinstance(desc["load"], (list, type(None))) else desc["load"]
    if "set" in desc:
        req["set"] = desc["set"]
    if "reset" in desc:
        if isinstance(desc["reset"], list):
            items = []
            for it in desc["reset"]:
                if isinstance(it, dict) and "menu" in it:
                    if menu_ids:
                        items.append(menu_ids[it["menu"] % len(menu_ids)])
                    else:
                        items.append("no-menu-0")
                else:
                    items.append(it)
            req["reset"] = items
        else:
            req["reset"] = desc["reset"]
    if "save" in desc:
        req["save"] = resolve_path(desc["save"], sb) if isinstance(desc["save"], (list, type(None))) else desc["save"]
    return json.dumps(req)
