"""ops - operation vocabulary and executor for a Kconfig node (DESIGN.md 4).

A KNode is one simulated process holding a real Kconfig built from a kgen
program on the run's sandbox directory.  Histories are lists of JSON-able ops:

  ["set", name, value]          ["unset", name]           ["cunset", choice_idx]
  ["reset", name]               ["reset_menu", menu_idx]  (menu_idx 0 = whole tree)
  ["read", [names], attr_mask]  ["save", slot, deprecated]
  ["save_min", slot, labels, normalize]
  ["load", slot, replace]       ["load_hand", idx, replace]
  ["restart", slot]             (save to slot; a fresh node loads it)

Ops are interpreted robustly (unknown names are skipped, indices are taken
modulo the live sizes) so that any sub-list of a history is again a history.
"""
import builtins
import os

from . import kgen, simproc

core = simproc.core


class OpRaised(Exception):
    def __init__(self, op, exc):
        super().__init__(f"{op}: {type(exc).__name__}: {exc}")
        self.op = op
        self.exc = exc


class KNode:
    def __init__(self, sb, prog_text, parser=1, policy=None, renames_text=None, tag="0"):
        self.sb = sb
        self.kpath = os.path.join(sb, "Kconfig." + tag)
        if not os.path.exists(self.kpath):
            with builtins.open(self.kpath, "w") as f:
                f.write(prog_text)
        self.rn = None
        if renames_text:
            self.rn = os.path.join(sb, "sdkconfig.rename")
            if not os.path.exists(self.rn):
                with builtins.open(self.rn, "w") as f:
                    f.write(renames_text)
        self.parser = parser
        self.policy = policy
        self.boot()

    def boot(self):
        """A fresh process on the same disk."""
        self.k = simproc.new_kconfig(self.kpath, parser=self.parser, policy=self.policy, renames=[self.rn] if self.rn else None)
        self.loads = 0
        self.stale_marked_loads = 0
        self.last_set_ok = None
        return self.k

    def twin(self, tag=None, prog_text=None, policy="same"):
        n = KNode.__new__(KNode)
        n.sb, n.rn, n.parser = self.sb, self.rn, self.parser
        n.policy = self.policy if policy == "same" else policy
        n.kpath = self.kpath
        if prog_text is not None:
            n.kpath = os.path.join(self.sb, "Kconfig." + tag)
            with builtins.open(n.kpath, "w") as f:
                f.write(prog_text)
        n.boot()
        return n

    def slot(self, s):
        return os.path.join(self.sb, "cfg_%s" % s)

    # ---- executing one op ------------------------------------------------
    def apply(self, op, hand=()):
        k = self.k
        kind = op[0]
        try:
            with simproc.quiet():
                if kind == "set":
                    s = k.syms.get(op[1])
                    self.last_set_ok = None
                    if s is not None and s.nodes:
                        self.last_set_ok = bool(s.set_value(op[2]))
                elif kind == "unset":
                    s = k.syms.get(op[1])
                    if s is not None and s.nodes:
                        s.unset_value()
                elif kind == "cunset":
                    if k.unique_choices:
                        k.unique_choices[op[1] % len(k.unique_choices)].unset_value()
                elif kind == "reset":
                    s = k.syms.get(op[1])
                    if s is not None and s.nodes:
                        core._restore_default(s.nodes[0])
                elif kind == "reset_menu":
                    menus = [k.top_node] + list(k.menus)
                    core._recursively_perform_action(menus[op[1] % len(menus)], core._restore_default)
                elif kind == "read":
                    self.read(op[1], op[2])
                elif kind == "save":
                    k.write_config(self.slot(op[1]), write_deprecated=bool(op[2]), save_old=False)
                elif kind == "save_min":
                    k.write_min_config(self.slot(op[1]), labels=bool(op[2]), normalize_unset=bool(op[3]))
                elif kind == "load":
                    p = self.slot(op[1])
                    if os.path.exists(p):
                        self.loads += 1
                        k.load_config(p, replace=bool(op[2]))
                elif kind == "load_hand":
                    if hand:
                        p = os.path.join(self.sb, "hand_%d" % (op[1] % len(hand)))
                        if not os.path.exists(p):
                            with builtins.open(p, "w") as f:
                                f.write(hand[op[1] % len(hand)])
                        self.loads += 1
                        k.load_config(p, replace=bool(op[2]))
                elif kind == "clobber":
                    # fault: somebody else (another tool run, the user) rewrote or removed a file this instance had saved
                    p = self.slot(op[1])
                    if os.path.exists(p):
                        if op[2]:
                            os.remove(p)
                        else:
                            with builtins.open(p, "w") as f:
                                f.write("# rewritten by somebody else\n")
                elif kind == "load_bad":
                    # fault: a replacing load of a file that turns out to be unreadable part-way (not valid UTF-8 after a
                    # readable head).  The load fails - that is expected and not judged - and the instance lives on.
                    p = os.path.join(self.sb, "bad_%d" % op[1])
                    head = b""
                    src = self.slot(op[1])
                    if os.path.exists(src):
                        with builtins.open(src, "rb") as f:
                            head = f.read()
                    with builtins.open(p, "wb") as f:
                        f.write(head + b"CONFIG_BROKEN=\xff\xfe\n")
                    self.loads += 1
                    try:
                        k.load_config(p, replace=True)
                    except Exception:  # noqa: B902
                        self.failed_loads = getattr(self, "failed_loads", 0) + 1
                elif kind == "restart":
                    k.write_config(self.slot(op[1]), save_old=False)
                    self.boot()
                    self.loads += 1
                    self.k.load_config(self.slot(op[1]))
                else:
                    raise ValueError("unknown op %r" % (op,))
        except Exception as e:  # noqa: B902 - an op that raises cuts the run (DESIGN.md 4)
            raise OpRaised(op, e) from e

    def read(self, names, mask=15):
        k = self.k
        out = []
        for nm in names:
            if isinstance(nm, int):
                if k.unique_choices:
                    c = k.unique_choices[nm % len(k.unique_choices)]
                    out.append((c.selection.name if c.selection else None, c.visibility))
                continue
            s = k.syms.get(nm)
            if s is None or not s.nodes:
                continue
            if mask & 1:
                out.append(s.str_value)
            if mask & 2:
                out.append(s.visibility)
            if mask & 4:
                out.append(s.assignable)
            if mask & 8:
                out.append(s.config_string)
        return out


def view(k, order=None):
    """Full observable view: every option and choice, in the given order."""
    syms = list(k.unique_defined_syms)
    chs = list(enumerate(k.unique_choices))
    if order is not None:
        order.shuffle(syms)
        order.shuffle(chs)
    v = {}
    with simproc.quiet():
        for s in syms:
            v[s.name] = (s.str_value, s.visibility, tuple(s.assignable), s.config_string)
        for i, c in chs:
            v["<choice %d>" % i] = (c.selection.name if c.selection else None, c.visibility, c.str_value)
    return v


def values(k):
    with simproc.quiet():
        return {s.name: s.str_value for s in k.unique_defined_syms}


def diff_views(a, b, limit=4):
    return [(n, a.get(n), b.get(n)) for n in sorted(set(a) | set(b)) if a.get(n) != b.get(n)][:limit]


def user_state(k, model=None):
    """The user-visible 'final user values and choice picks' of a node.  Where the history model (UserModel) knows a
    value or a pick for sure, the model's knowledge replaces the node's own record of what the user did - an oracle
    that only reads the system's record cannot see that record being wrong."""
    st = {"syms": [], "choices": [], "from_model": 0}
    for s in k.unique_defined_syms:
        if s.choice:
            continue
        if model is not None and model.vals.get(s.name, UNKNOWN) is not UNKNOWN:
            st["from_model"] += 1
            if model.vals[s.name] is not None:
                st["syms"].append((s.name, model.vals[s.name]))
        elif s._user_value is not None:
            st["syms"].append((s.name, s._user_value))
    for i, c in enumerate(k.unique_choices):
        sel = c._user_selection.name if c._user_selection else None
        if model is not None and model.pick.get(i, UNKNOWN) is not UNKNOWN:
            sel = model.pick[i]
            st["from_model"] += 1
        members = list(dict.fromkeys(c.syms))
        ys = [m.name for m in members if m._user_value == 2 and m.name != sel]
        ns = [m.name for m in members if m._user_value == 0 and m.name != sel]
        st["choices"].append({"i": i, "sel": sel, "ys": ys, "ns": ns, "mode": c._user_value})
    return st


def transplant(k2, st, order=None):
    """Apply a user state to a fresh node through the public setters.  Plain
    options in a drawn order; per choice: non-selected y members, the user
    selection last among the y's, then the n's, then the mode (DESIGN.md C03)."""
    items = list(st["syms"])
    if order is not None:
        order.shuffle(items)
    with simproc.quiet():
        for n, v in items:
            k2.syms[n].set_value(v)
        for c in st["choices"]:
            ch = k2.unique_choices[c["i"]]
            for n in c["ys"]:
                k2.syms[n].set_value(2)
            if c["sel"]:
                sel = k2.syms[c["sel"]]
                sel.set_value(2)
            for n in c["ns"]:
                k2.syms[n].set_value(0)
            if not c["sel"] and c["ys"]:
                # members carry a user y but the choice has no user pick (Choice.unset_value()
                # after the assignments): reproduce it through the same public call
                ch.unset_value()
            if c["mode"] is not None:
                ch.set_value(c["mode"])


UNKNOWN = "<unknown>"


class PickModel:
    """Bookkeeping model of 'the user's pick' per choice, kept from the history alone (a map, nothing else).
    Definite after: set member y; Choice.unset_value(); reset of a member; reset of the whole tree; a *replacing* load of a
    hand-written file (last y entry of the choice wins, no y entry = no pick).  Everything else (member set n / unset,
    reset of a sub-menu, merges, tool-written files, restarts) makes the affected picks unknown; the monitor then
    falls back to the node's own record, so the model can only add demands it is sure of."""

    def __init__(self, k):
        self.member_choice = {m.name: i for i, c in enumerate(k.unique_choices) for m in c.syms}
        self.pick = {i: None for i in range(len(k.unique_choices))}

    def all_unknown(self):
        for i in self.pick:
            self.pick[i] = UNKNOWN

    def apply(self, op, hand, node=None):
        kind = op[0]
        if kind == "set":
            i = self.member_choice.get(op[1])
            if i is not None:
                if op[2] == "y":
                    self.pick[i] = op[1]
                elif self.pick[i] in (op[1], UNKNOWN):
                    self.pick[i] = UNKNOWN
        elif kind == "unset":
            i = self.member_choice.get(op[1])
            if i is not None and self.pick[i] in (op[1], UNKNOWN):
                self.pick[i] = UNKNOWN
        elif kind == "cunset":
            if self.pick:
                self.pick[op[1] % len(self.pick)] = None
        elif kind == "reset":
            i = self.member_choice.get(op[1])
            if i is not None:
                self.pick[i] = None
        elif kind == "reset_menu":
            self.all_unknown()
        elif kind == "load_hand" and hand and op[2]:
            text = hand[op[1] % len(hand)]
            newpick = {i: None for i in self.pick}
            for ln in text.splitlines():
                ln = ln.strip()
                if ln.startswith("CONFIG_") and "=" in ln:
                    name, val = ln[len("CONFIG_"):].split("=", 1)
                    i = self.member_choice.get(name)
                    if i is not None and val.startswith("y"):
                        newpick[i] = name
            self.pick = newpick
        elif kind in ("load", "load_hand", "restart", "load_bad"):
            self.all_unknown()


class UserModel(PickModel):
    """PickModel plus the user values of plain (non-member) options, again from the history alone: the raw value of the
    last *accepted* `set` (acceptance = the boolean the setter returned), removed by unset / reset of that option;
    resets of menus, loads and restarts make everything unknown (the node's own record is used then)."""

    def __init__(self, k):
        super().__init__(k)
        self.plain = [s.name for s in k.unique_defined_syms if not s.choice]
        self.vals = {n: None for n in self.plain}

    def apply(self, op, hand, node=None):
        super().apply(op, hand, node)
        kind = op[0]
        if kind == "set" and op[1] in self.vals:
            ok = node.last_set_ok if node is not None else None
            if ok is True:
                self.vals[op[1]] = op[2]
            elif ok is None:
                self.vals[op[1]] = UNKNOWN
        elif kind in ("unset", "reset") and op[1] in self.vals:
            self.vals[op[1]] = None
        elif kind in ("reset_menu", "load", "load_hand", "restart", "load_bad"):
            for n in self.vals:
                self.vals[n] = UNKNOWN


def injected(k):
    """Options carrying an injected sdkconfig default (not user state)."""
    return [s.name for s in k.unique_defined_syms if getattr(s, "_default_value_injected", False)] + \
        ["<choice %d>" % i for i in simproc.injected_choices(k)]


# ---- history generation ------------------------------------------------------
def mentioned_names(prog):
    import re

    txt = kgen.render(prog)
    names = set(kgen.sym_table(prog))
    cnt = {}
    for m in re.finditer(r"[A-Z][A-Z0-9_]*", txt):
        if m.group(0) in names:
            cnt[m.group(0)] = cnt.get(m.group(0), 0) + 1
    return [n for n, c in cnt.items() if c > 1]  # mentioned somewhere besides its definition


def gen_history(r, prog, n_ops, weights=None, sane=0.8, hand_n=0, slots=3, olds=(), avoid=(), presaved=()):
    """A seeded history over the program's static description.  `avoid`: options that are never assigned."""
    tab = kgen.sym_table(prog)
    names = list(tab)
    members = [n for n in names if tab[n]["choice"]]
    hot = mentioned_names(prog) or names
    nch = sum(1 for it in kgen.walk(prog["items"]) if it["k"] == "choice")
    w = {"set": 40, "unset": 8, "cunset": 3, "reset": 8, "reset_menu": 3, "read": 18, "save": 6, "save_min": 0, "load": 6,
         "load_hand": 3 if hand_n else 0, "restart": 4, "edge": 0, "dance": 2, "load_bad": 0, "stale_merge": 0, "clobber": 0, "stale_chain": 0, "force_dance": 3}
    member_bias = 0.25
    if weights:
        weights = dict(weights)
        member_bias = weights.pop("member_bias", member_bias)
        w.update(weights)
    edges = kgen.dep_edges(prog) if (w.get("edge") or w.get("dance") or w.get("stale_merge") or w.get("stale_chain")) else []
    if not edges:
        w["edge"] = 0
    # members whose visibility hangs on an option outside their choice, with their siblings (for "dance")
    groups = [[c["name"] for c in kgen.walk(it["items"]) if c["k"] == "config"] for it in kgen.walk(prog["items"]) if it["k"] == "choice"]
    group_of = {m: (gi, g) for gi, g in enumerate(groups) for m in g}
    gated = sorted({(a, b) for a, b, en in edges if b in group_of and a not in group_of[b][1]})
    if not gated:
        w["dance"] = 0
    forced = sorted({(c["name"], t) for c in kgen.walk(prog["items"]) if c["k"] == "config" for kind2, t, _v, _c in c["sets"]
                     if kind2 == "set" and t in tab and tab[t]["prompt"]})
    if not forced:
        w["force_dance"] = 0
    kinds = [k for k, v in w.items() for _ in range(v)]
    ops = []
    saved = set(presaved)  # slots an earlier history on the same sandbox has written
    n_before = -1
    for _ in range(n_ops):
        if not names:
            break
        if avoid and n_before >= 0:
            ops[n_before:] = [o for o in ops[n_before:] if not (o[0] == "set" and o[1] in avoid)]
        n_before = len(ops)
        kind = r.choice(kinds)
        if kind == "edge":
            # read B, then write something B may depend on (the interleaving C03 searches)
            a, b, en = r.choice(edges)
            if r.random() < 0.35:
                # the dependent holds a user value of its own (what a forced / defaulted value hides and later uncovers)
                tb = tab[b]["type"]
                ops.append(["set", b, r.choice(kgen.SANE[tb])])
            if en and r.random() < 0.6:
                ops.append(["set", en, "y"])
            # a member is observed through its choice as well (the selection is cached on the choice)
            ops.append(["read", [b] + ([group_of[b][0]] if b in group_of else []), 15])
            t = tab[a]["type"]
            k2 = r.random()
            if k2 < 0.75:
                ops.append(["set", a, r.choice(kgen.SANE[t] if r.random() < sane else kgen.VALS[t])])
            elif k2 < 0.9:
                ops.append(["reset", a])
            else:
                ops.append(["unset", a])
        elif kind == "dance":
            # picks made around a visibility flip of a (picked) member: pick, hide, pick again / reset / unpick, show
            a, b = r.choice(gated)
            gi, g = group_of[b]
            sibs = [m for m in g if m != b] or [b]
            ta = tab[a]["type"]

            def flip():
                ops.append(["set", a, r.choice(kgen.SANE[ta])])

            if r.random() < 0.6:
                ops.append(["set", r.choice(sibs), "y"])
            ops.append(["set", b, "y"])
            if r.random() < 0.5:
                ops.append(["read", [b, gi], 15])  # the selection is cached before the gate moves
            flip()
            if r.random() < 0.3:
                ops.append(["read", [b, gi], 15])
            k2 = r.random()
            if k2 < 0.4:
                ops.append(["set", r.choice(sibs), "y"])
            elif k2 < 0.55:
                ops.append(["set", b, r.choice(["y", "n"])])
            elif k2 < 0.7:
                ops.append(["reset", r.choice(g)])
            elif k2 < 0.8:
                ops.append(["cunset", gi])
            elif k2 < 0.9:
                ops.append(["unset", r.choice(g)])
            k3 = r.random()
            if k3 < 0.3:
                ops.append(["read", [gi], 15])  # only the selection is looked at: member visibilities get cached, values do not
            elif k3 < 0.45:
                ops.append(["read", [b, gi], r.choice([2, 15])])
            if r.random() < 0.6:
                flip()  # (otherwise the history goes on - or ends - with the member hidden / shown as the first flip left it)
        elif kind == "set":
            pool = members if (members and r.random() < member_bias) else (hot if r.random() < 0.5 else names)
            nm = r.choice(pool)
            t = tab[nm]["type"]
            ops.append(["set", nm, r.choice(kgen.SANE[t] if r.random() < sane else kgen.VALS[t])])
        elif kind == "unset":
            ops.append(["unset", r.choice(names)])
        elif kind == "cunset":
            if nch:
                ops.append(["cunset", r.randrange(nch)])
        elif kind == "reset":
            ops.append(["reset", r.choice(members if (members and r.random() < 0.3) else names)])
        elif kind == "reset_menu":
            ops.append(["reset_menu", r.randrange(0, 6)])
        elif kind == "read":
            pool = hot if r.random() < 0.4 else names
            sub = [r.choice(pool) for _ in range(r.randint(1, min(len(names), 6)))]
            if nch and r.random() < 0.3:
                sub.insert(r.randrange(len(sub) + 1), r.randrange(nch))
            if nch and r.random() < 0.12:
                sub = [r.randrange(nch)]  # only a choice's selection is looked at (no member value is)
            # attribute masks: 1 value, 2 visibility, 4 assignable, 8 config_string - partial reads leave partial caches
            ops.append(["read", sub, r.choice([1, 3, 15, 15, 5, 9, 2, 2])])
        elif kind == "save":
            s = r.randrange(slots)
            saved.add(s)
            ops.append(["save", s, int(r.random() < 0.5)])
        elif kind == "save_min":
            s = r.randrange(slots)
            ops.append(["save_min", "m%d" % s, int(r.random() < 0.5), int(r.random() < 0.5)])
        elif kind == "load":
            if saved:
                ops.append(["load", r.choice(sorted(saved)), int(r.random() < 0.6)])
        elif kind == "load_hand":
            ops.append(["load_hand", r.randrange(hand_n), int(r.random() < 0.5)])
        elif kind == "clobber":
            ops.append(["clobber", ("m%d" % r.randrange(slots)) if r.random() < 0.7 else r.randrange(slots), int(r.random() < 0.4)])
        elif kind == "load_bad":
            ops.append(["load_bad", r.choice(sorted(saved)) if saved else 0])
        elif kind == "force_dance":
            # a `set` that forces a prompted option: the user's own value is hidden while the source is on and comes back
            # when it goes off (the evaluation leaves side flags behind that writers and the UI consult)
            if forced:
                src, tgt = r.choice(forced)
                ops.append(["set", tgt, r.choice(kgen.SANE[tab[tgt]["type"]])])
                ops.append(["set", src, "y"])
                ops.append(["read", [tgt], r.choice([1, 15, 9])])
                ops.append(["set", src, "n"])
                if r.random() < 0.3:
                    ops.append(["read", [tgt], 15])
        elif kind == "stale_chain":
            # a -> b -> c: make b's stored default stale (save, change a, merge the save back: b gets pinned under policy
            # sdkconfig), look at c, then replace the configuration (by a load that works, or one that fails part-way)
            chains = [(a, b, c2) for a, b, _ in edges for b2, c2, _ in edges if b2 == b and c2 not in (a, b)]
            if chains:
                a, b, c = r.choice(chains[:400])
                s = r.randrange(slots)
                saved.add(s)
                ops.append(["save", s, 0])
                ops.append(["set", a, r.choice(kgen.SANE[tab[a]["type"]])])
                ops.append(["load", s, 0])
                ops.append(["read", [b, c], 15])
                k4 = r.random()
                if k4 < 0.4 and "load_bad" in w:
                    ops.append(["load_bad", s])
                elif k4 < 0.7:
                    ops.append(["load", r.choice(sorted(saved)), 1])
                elif hand_n:
                    ops.append(["load_hand", r.randrange(hand_n), 1])
        elif kind == "stale_merge":
            # save; change something another option's default depends on; merge the saved file back: its default-marked
            # entry for the dependent is stale now (policy sdkconfig pins it for the session)
            if edges:
                a, b, en = r.choice(edges)
                s = r.randrange(slots)
                saved.add(s)
                ops.append(["save", s, 0])
                ta = tab[a]["type"]
                ops.append(["set", a, r.choice(kgen.SANE[ta])])
                ops.append(["load", s, 0])
                if r.random() < 0.5:
                    ops.append(["read", [b], 15])
        elif kind == "restart":
            s = r.randrange(slots)
            saved.add(s)
            ops.append(["restart", s])
    if avoid:
        ops = [o for o in ops if not (o[0] == "set" and o[1] in avoid)]
    return ops


def run_history(node, ops, hand=(), ctx=None, after=None):
    """Execute ops; `after(i, op)` is the per-step monitor.  Returns the number
    of executed ops; an op that raises cuts the run (counted, replayable)."""
    for i, op in enumerate(ops):
        try:
            node.apply(op, hand)
        except OpRaised as e:
            if ctx is not None:
                import traceback

                tb = traceback.extract_tb(e.exc.__traceback__)
                fn = tb[-1].name if tb else "?"
                ctx.counters["op_raised:%s/%s" % (type(e.exc).__name__, fn)] += 1
                ctx.ev("op-raised", i, op[0], type(e.exc).__name__, fn)
            return i
        if ctx is not None:
            ctx.events += 1
        if after is not None:
            after(i, op)
    return len(ops)
