"""runner - batches, budgets, shrinking, replay files, evidence, output contract
(DESIGN.md 2.9 - 2.11).

Exit codes: 0 property held on everything explored (KNOWN-FINDING lines allowed),
1 VIOLATION (unlisted signature), 2 HARNESS-ERROR (never converted to 0 or 1).
"""
import collections
import concurrent.futures as cf
import faulthandler
import importlib
import json
import multiprocessing
import os
import shutil
import subprocess
import sys
import tempfile
import time
import traceback

from . import rng as _rng

VERIF = os.path.dirname(os.path.dirname(os.path.abspath(__file__)))
KNOWN = os.path.join(VERIF, "known_findings.txt")
DEFAULT_SEED = {"quick": 20260923, "thorough": 777001}
WORKERS = int(os.environ.get("VERIF_WORKERS", "16"))
RUN_TIMEOUT = 120  # seconds per single run before the worker dumps tracebacks and dies


class Finding:
    def __init__(self, signature, message):
        self.signature = signature
        self.message = message

    def __repr__(self):
        return f"Finding({self.signature!r}, {self.message!r})"


class Ctx:
    """Per-run context handed to check.execute()."""

    def __init__(self, workdir):
        self.workdir = workdir
        self.counters = collections.Counter()
        self.events = 0
        self.log = []  # event log (digest input)
        self.findings = []
        self.nontrivial = False
        self.key = None  # distinctness key

    def fresh_dir(self, name="sb"):
        d = os.path.join(self.workdir, name)
        for p in (d, d + ".old"):
            if os.path.isdir(p) and not os.path.islink(p):
                shutil.rmtree(p, ignore_errors=True)
            elif os.path.lexists(p):
                os.remove(p)
        os.makedirs(d)
        return d

    def violate(self, signature, message):
        # one finding per signature per run is enough
        if not any(f.signature == signature for f in self.findings):
            self.findings.append(Finding(signature, str(message)[:2000]))

    def ev(self, *a):
        self.log.append(a)

    def norm(self, obj):
        """JSON text of obj with the run's (random) scratch path - also in its menu-id slug form - replaced."""
        t = json.dumps(obj, sort_keys=True, default=repr)
        wd = self.workdir
        return t.replace(wd, "<WD>").replace(wd.strip("/").replace("/", "-"), "<WD>")


def load_check(cid):
    return importlib.import_module("sim.checks." + cid.lower())


def load_known():
    out = {}
    fixed = []
    if os.path.exists(KNOWN):
        for ln in open(KNOWN, encoding="utf-8"):
            ln = ln.strip()
            if ln.startswith("finding:"):
                parts = ln.split()
                prop = [p for p in parts if p.startswith("property=")][0].split("=", 1)[1]
                sig = [p for p in parts if p.startswith("signature=")][0].split("=", 1)[1]
                out[(prop, sig)] = ln
            elif ln.startswith("fixed:"):
                fixed.append(ln)
    return out, fixed


def run_one(check, seed, index, tier, workdir, scenario=None):
    """One simulated run.  Returns (scenario, ctx)."""
    from . import simproc

    r = _rng.derive(seed, check.ID, index)
    if scenario is None:
        scenario = check.generate(r, tier)
    ctx = Ctx(workdir)
    simproc.scrub_env()
    simproc.install_simhash(scenario.get("hash_salt", 0))
    simproc.install_locale(scenario)
    simproc.install_salted_sets(scenario)
    simproc.set_workdir(workdir)
    faulthandler.dump_traceback_later(RUN_TIMEOUT, exit=True)
    try:
        check.execute(scenario, ctx)
    finally:
        faulthandler.cancel_dump_traceback_later()
    return scenario, ctx


def _escaped_from_sut(exc):
    """Name of the innermost function when the exception was raised inside the repository under test (not in /verif)."""
    from . import simproc

    tb = traceback.extract_tb(exc.__traceback__)
    if not tb:
        return None
    last = tb[-1]
    repo = os.path.realpath(simproc.REPO)
    fn = os.path.realpath(last.filename) if os.path.exists(last.filename) else last.filename
    if fn.startswith(repo + os.sep):
        return last.name
    # (an error raised by a seam - e.g. the simulated file refusing to encode a character - belongs to the caller)
    # decoding errors surface in codec frames: attribute them to the nearest non-stdlib frame
    seams = ("simfs.py", "simpipe.py", "simproc.py")  # code of the simulator that the code under test calls into
    for fr in reversed(tb):
        f2 = os.path.realpath(fr.filename) if os.path.exists(fr.filename) else fr.filename
        if f2.startswith(repo + os.sep):
            return fr.name
        if f2.startswith(VERIF + os.sep) and os.path.basename(f2) not in seams:
            return None
    return None


def _locale_of(sc):
    from . import simproc

    return sc.get("locale") or simproc.LOCALES[(sc.get("hash_salt", 0) >> 8) % len(simproc.LOCALES)]


def _batch(args):
    cid, seed, tier, lo, hi, deadline, want_digests = args
    check = load_check(cid)
    wd = tempfile.mkdtemp(prefix="verif-%s-" % cid)
    res = {"runs": 0, "counters": collections.Counter(), "events": 0, "keys": set(), "nontrivial": 0, "violations": [],
           "samples": [], "digests": {}, "errors": [], "skipped": 0}
    try:
        for i in range(lo, hi):
            if time.time() > deadline:
                res["skipped"] += hi - i
                break
            try:
                sc, ctx = run_one(check, seed, i, tier, wd)
            except Exception as e:
                where = _escaped_from_sut(e)
                if where is not None:
                    # an exception raised by the code under test at a call the check does not judge: the run is cut and
                    # counted (replayable by index); it is neither a verdict nor a defect of the harness
                    res["runs"] += 1
                    res["counters"]["op_raised:escaped/%s/%s" % (type(e).__name__, where)] += 1
                    continue
                res["errors"].append((i, traceback.format_exc()[-3000:]))
                continue
            res["runs"] += 1
            res["counters"].update(ctx.counters)
            for kn in ("parser", "policy", "version", "verbosity", "chunk", "ndirs"):
                if kn in sc:
                    res["counters"]["knob:%s/%s" % (kn, sc[kn])] += 1
            if "pipes" in sc:
                res["counters"]["knob:pipes/stdin-%s,stdout-%s" % tuple(sc["pipes"])] += 1
            res["counters"]["knob:locale/" + _locale_of(sc)] += 1
            res["events"] += ctx.events
            if ctx.nontrivial:
                res["nontrivial"] += 1
                res["keys"].add(_rng.digest(ctx.norm(ctx.key if ctx.key is not None else ctx.log)))
            for f in ctx.findings:
                res["violations"].append((i, f.signature, f.message))
            if want_digests or i < 64:
                res["digests"][i] = _rng.digest(ctx.norm([ctx.log, [(f.signature) for f in ctx.findings]]))
            if len(res["samples"]) < 1 and ctx.nontrivial:
                res["samples"].append({"run": i, "scenario": check.summarize(sc) if hasattr(check, "summarize") else sc})
    finally:
        shutil.rmtree(wd, ignore_errors=True)
    return res


def explore(cid, seed, tier, runs, wall, workers=WORKERS, want_digests=False, lo=0):
    """Run indices lo..lo+runs-1 on `workers` processes.  Aggregated result."""
    check = load_check(cid)
    bs = getattr(check, "BATCH", 25)
    deadline = time.time() + wall
    jobs = [(cid, seed, tier, a, min(a + bs, lo + runs), deadline, want_digests) for a in range(lo, lo + runs, bs)]
    agg = {"runs": 0, "counters": collections.Counter(), "events": 0, "keys": set(), "nontrivial": 0, "violations": [],
           "samples": [], "digests": {}, "errors": [], "skipped": 0}
    if workers <= 1:
        results = map(_batch, jobs)
        pool = None
    else:
        pool = cf.ProcessPoolExecutor(max_workers=workers, mp_context=multiprocessing.get_context("fork"))
        results = pool.map(_batch, jobs)
    try:
        for r in results:
            agg["runs"] += r["runs"]
            agg["counters"].update(r["counters"])
            agg["events"] += r["events"]
            agg["keys"] |= r["keys"]
            agg["nontrivial"] += r["nontrivial"]
            agg["violations"] += r["violations"]
            if len(agg["samples"]) < 4:
                agg["samples"] += r["samples"]
            agg["digests"].update(r["digests"])
            agg["errors"] += r["errors"]
            agg["skipped"] += r["skipped"]
    finally:
        if pool:
            pool.shutdown(cancel_futures=True)
    return agg


# ---- shrinking --------------------------------------------------------
def reproduces(check, scenario, signature, workdir):
    try:
        _, ctx = run_one(check, 0, 0, "quick", workdir, scenario=scenario)
    except Exception:
        return False
    return any(f.signature == signature for f in ctx.findings)


def shrink(check, scenario, signature, workdir, cap=300, wall=90):
    """Greedy delta debugging on the concrete scenario (not on the PRNG)."""
    if not hasattr(check, "reductions"):
        return scenario, 0
    t0 = time.time()
    tries = 0
    best = scenario
    progress = True
    while progress and tries < cap and time.time() - t0 < wall:
        progress = False
        for cand in check.reductions(best):
            tries += 1
            if tries >= cap or time.time() - t0 > wall:
                break
            if reproduces(check, cand, signature, workdir):
                best = cand
                progress = True
                break
    return best, tries


def write_replay(cid, signature, seed, index, scenario, message):
    d = os.path.join(os.environ.get("VERIF_REPLAY_DIR", os.path.join(VERIF, "replays")), cid)
    os.makedirs(d, exist_ok=True)
    h = _rng.digest(signature)[:8]
    path = os.path.join(d, f"{h}-{seed}-{index}.json")
    with open(path, "w", encoding="utf-8") as f:
        json.dump({"property": cid, "signature": signature, "seed": seed, "run": index, "message": message, "scenario": scenario}, f,
                  indent=1, sort_keys=True, default=repr)
    return path


def replay_file(path, verbose=True):
    """Execute a replay file in this interpreter.  Returns list of findings."""
    rec = json.load(open(path, encoding="utf-8"))
    check = load_check(rec["property"])
    wd = tempfile.mkdtemp(prefix="verif-replay-")
    try:
        _, ctx = run_one(check, rec.get("seed", 0), rec.get("run", 0), "quick", wd, scenario=rec["scenario"])
    finally:
        shutil.rmtree(wd, ignore_errors=True)
    return rec, ctx


def verify_replay_fresh(path, signature):
    """Replay in a fresh interpreter; must report the same signature."""
    p = subprocess.run([sys.executable, os.path.join(VERIF, "vcheck"), "--replay", path], capture_output=True, text=True, timeout=600,
                       env=dict(os.environ, PYTHONHASHSEED="0"))
    return ("REPRODUCED signature=" + signature) in p.stdout, p.stdout[-2000:] + p.stderr[-2000:]


# ---- evidence ---------------------------------------------------------
def write_evidence(cid, check, tier, seed, agg, wall_s, nviol, extra=None):
    cov = {
        "evaluations": agg["runs"],
        "distinct_nontrivial": len(agg["keys"]),
        "rule": check.RULE,
        "samples": agg["samples"][:4] or [{"note": "no nontrivial run in this batch"}],
        "runs_per_hour": int(agg["runs"] / max(wall_s, 1e-6) * 3600),
        "seeds": {"base_seed": seed, "run_indices": [0, agg["runs"] + agg["skipped"]], "derivation": "sha256(seed/check/index)"},
        "sim_events": agg["events"],
        "sim_time_unit": "events (file-system operations / requests / UI actions); the code under test has no clocks or timers",
        "faults_fired": {k: v for k, v in sorted(agg["counters"].items()) if k.startswith(("crash@", "err@", "fault:"))},
        "reach_probes": {k: v for k, v in sorted(agg["counters"].items()) if k.startswith("probe:")},
        "op_raised": {k: v for k, v in sorted(agg["counters"].items()) if k.startswith("op_raised:")},
        "environment_knobs": {k[5:]: v for k, v in sorted(agg["counters"].items()) if k.startswith("knob:")},
        "other_counters": {k: v for k, v in sorted(agg["counters"].items()) if not k.startswith(("crash@", "err@", "fault:", "probe:", "op_raised:", "knob:"))},
        "states_measure": "distinct digests of (program shape, final state / journal, fault placement) among nontrivial runs",
        "components_real": check.REAL,
        "components_stubbed": check.STUB,
        "runs_skipped_by_wall_cap": agg["skipped"],
        "workers": WORKERS,
    }
    if extra:
        cov.update(extra)
    ev = {
        "property_id": cid,
        "tier": tier,
        "seed": seed,
        "level": check.LEVEL,
        "coverage": cov,
        "assumptions": check.ASSUMPTIONS,
        "wall_s": round(wall_s, 2),
        "violations": nviol,
    }
    evdir = os.environ.get("VERIF_EVIDENCE_DIR", os.path.join(VERIF, "evidence"))
    os.makedirs(evdir, exist_ok=True)
    path = os.path.join(evdir, cid + ".json")
    tmp = path + ".tmp"
    with open(tmp, "w", encoding="utf-8") as f:
        json.dump(ev, f, indent=1, sort_keys=True, default=repr)
    os.replace(tmp, path)
    return path


# ---- top level --------------------------------------------------------
def selftest_slice(cid, seed, tier, digests, n=16):
    """Determinism: re-run the first n indices in a fresh interpreter with another
    PYTHONHASHSEED and one worker; digests must be identical."""
    p = subprocess.run([sys.executable, os.path.join(VERIF, "vcheck"), cid, "--tier", tier, "--digests", "0:%d" % n],
                       capture_output=True, text=True, timeout=900,
                       env=dict(os.environ, PYTHONHASHSEED="12345", VERIF_SEED=str(seed), VERIF_WORKERS="1", VERIF_NO_REEXEC="1"))
    try:
        other = json.loads(p.stdout.strip().splitlines()[-1])
    except Exception:
        return False, "selftest subprocess failed: " + p.stdout[-500:] + p.stderr[-1500:]
    bad = [i for i in range(n) if str(i) in other and i in digests and other[str(i)] != digests[i]]
    missing = [i for i in range(n) if i in digests and str(i) not in other]
    if bad or missing:
        return False, f"digest mismatch at run indices {bad} missing {missing}"
    return True, f"{n} runs x 2 interpreters (PYTHONHASHSEED 0 vs 12345, {WORKERS} vs 1 workers): identical digests"


def main_check(cid, tier, seed=None, runs=None, wall=None, selftest=True):
    t0 = time.time()
    check = load_check(cid)
    if seed is None:
        seed = int(os.environ.get("VERIF_SEED", DEFAULT_SEED[tier]))
    budget = check.TIERS[tier]
    runs = runs or int(os.environ.get("VERIF_RUNS", budget["runs"]))
    wall = wall or int(os.environ.get("VERIF_WALL", budget["wall"]))
    print(f"[{cid}] tier={tier} seed={seed} runs<={runs} wall<={wall}s workers={WORKERS}", flush=True)
    try:
        agg = explore(cid, seed, tier, runs, wall)
    except Exception:
        print("HARNESS-ERROR: exploration failed\n" + traceback.format_exc())
        return 2
    if agg["errors"]:
        i, tb = agg["errors"][0]
        print(f"HARNESS-ERROR: {len(agg['errors'])} run(s) raised inside the harness; first: run {i}\n{tb}")
        return 2
    st_ok, st_msg = (True, "skipped")
    if selftest:
        st_ok, st_msg = selftest_slice(cid, seed, tier, agg["digests"])
        if not st_ok:
            print("HARNESS-ERROR: determinism self-test failed: " + st_msg)
            return 2
    # group violations by signature
    known, _fixed = load_known()
    by_sig = collections.OrderedDict()
    for i, sig, msg in sorted(agg["violations"]):
        by_sig.setdefault(sig, []).append((i, msg))
    rc = 0
    nviol = 0
    wd = tempfile.mkdtemp(prefix="verif-shrink-")
    try:
        reported = 0
        for sig, occ in by_sig.items():
            if (cid, sig) in known:
                print(f"KNOWN-FINDING: property={cid} signature={sig} occurrences={len(occ)} first_run={occ[0][0]} :: {occ[0][1][:300]}")
                continue
            nviol += len(occ)
            rc = 1
            if reported >= 6:
                print(f"(further unlisted signature {sig}: {len(occ)} occurrences, first run {occ[0][0]})")
                continue
            reported += 1
            i, msg = occ[0]
            r = _rng.derive(seed, cid, i)
            sc = check.generate(r, tier)
            if not reproduces(check, sc, sig, wd):
                print(f"HARNESS-ERROR: run {i} signature {sig} did not reproduce in-process")
                return 2
            small, tries = shrink(check, sc, sig, wd)
            path = write_replay(cid, sig, seed, i, small, msg)
            ok, out = verify_replay_fresh(path, sig)
            if not ok:
                print(f"HARNESS-ERROR: replay {path} did not reproduce {sig} in a fresh interpreter\n{out}")
                return 2
            print(f"violation: signature={sig} occurrences={len(occ)} first_run={i} shrink_tries={tries} :: {msg[:600]}")
            print(f"VIOLATION property={cid} replay={path}")
    finally:
        shutil.rmtree(wd, ignore_errors=True)
    wall_s = time.time() - t0
    extra = {"determinism_selftest": st_msg, "signatures_seen": {s: len(o) for s, o in by_sig.items()},
             "known_findings_matched": [s for s in by_sig if (cid, s) in known]}
    path = write_evidence(cid, check, tier, seed, agg, wall_s, nviol, extra)
    print(f"[{cid}] runs={agg['runs']} nontrivial_distinct={len(agg['keys'])} events={agg['events']} skipped={agg['skipped']} "
          f"wall={wall_s:.1f}s evidence={path} rc={rc}", flush=True)
    return rc


def main_replay(path):
    rec, ctx = replay_file(path)
    sig = rec["signature"]
    for f in ctx.findings:
        print(f"finding: signature={f.signature} :: {f.message[:1500]}")
    if any(f.signature == sig for f in ctx.findings):
        print(f"REPRODUCED signature={sig}")
        print(f"VIOLATION property={rec['property']} replay={path}")
        return 1
    print(f"NOT-REPRODUCED signature={sig}")
    return 0


def main_digests(cid, tier, lo, hi):
    seed = int(os.environ.get("VERIF_SEED", DEFAULT_SEED[tier]))
    agg = explore(cid, seed, tier, hi - lo, 3600, workers=int(os.environ.get("VERIF_WORKERS", "1")), want_digests=True, lo=lo)
    if agg["errors"]:
        print(json.dumps({"error": agg["errors"][0][1]}))
        return 2
    print(json.dumps({str(k): v for k, v in agg["digests"].items()}))
    return 0


def main_only(cid, tier, index, seed=None, shrink_sig=None):
    """Debug helper: one run index, findings, optional shrink of one signature."""
    check = load_check(cid)
    if seed is None:
        seed = int(os.environ.get("VERIF_SEED", DEFAULT_SEED[tier]))
    wd = tempfile.mkdtemp(prefix="verif-only-")
    try:
        sc, ctx = run_one(check, seed, index, tier, wd)
        for f in ctx.findings:
            print("finding:", f.signature, "::", f.message[:800])
        print("counters:", dict(ctx.counters))
        if shrink_sig:
            small, tries = shrink(check, sc, shrink_sig, wd)
            print("shrunk after", tries, "tries")
            print(json.dumps(check.summarize(small) if hasattr(check, "summarize") else small, indent=1, default=repr))
            path = write_replay(cid, shrink_sig, seed, index, small, "")
            print("replay:", path)
        elif not ctx.findings:
            print(json.dumps(check.summarize(sc) if hasattr(check, "summarize") else sc, indent=1, default=repr)[:6000])
    finally:
        shutil.rmtree(wd, ignore_errors=True)
    return 0
