"""simui - the menuconfig session without the Textual runtime (DESIGN.md 2.6).

Real: esp_menuconfig.model (all of it), the handler methods of
esp_menuconfig.app.MenuConfigApp (called unbound with a FakeApp as `self`),
MenuOptionList.populate/current_node (called unbound with a FakeList),
formatting.node_str/check_valid/info_str, idf_headers, session start through
esp_menuconfig.menuconfig(kconf, headless=True), the real Screen classes
(constructed, their allowed_keys/validator used).
Stub: the Textual event loop, focus, rendering and key->message dispatch (a
1:1 table reproduced in `press`), the screens' own widgets.
"""
import os
import types

from . import simproc

from esp_menuconfig import app as mapp  # noqa: E402
from esp_menuconfig import formatting as mfmt  # noqa: E402
from esp_menuconfig import screens as mscr  # noqa: E402
from esp_menuconfig import widgets as mwid  # noqa: E402
import esp_menuconfig  # noqa: E402

App = mapp.MenuConfigApp
List = mwid.MenuOptionList


class FakeStatic:
    def __init__(self):
        self.text = ""
        self.display = True

    def update(self, t=""):
        self.text = t


class FakeList:
    """Stands in for MenuOptionList; populate()/current_node are the real code."""

    _BACK_LABEL = List._BACK_LABEL

    def __init__(self):
        self._menu_nodes = []
        self.highlighted = None
        self.labels = []

    def clear_options(self):
        self.labels = []
        self.highlighted = None

    def add_option(self, label):
        self.labels.append(label)
        if self.highlighted is None:
            self.highlighted = 0  # OptionList highlights the first option when populated

    def focus(self):
        pass

    def populate(self, state, restore_index=None):
        return List.populate(self, state, restore_index)

    @property
    def current_node(self):
        return List.current_node.fget(self)


class FakeApp:
    def __init__(self, state):
        self.state = state
        self.list = FakeList()
        self.statics = {}
        self.pending = []  # (screen, callback)
        self.exited = None
        self.notes = []
        self.title = ""

    # --- what the handlers use from App -----------------------------------
    def query_one(self, sel, cls=None):
        if sel == "#menu-list":
            return self.list
        return self.statics.setdefault(sel, FakeStatic())

    def notify(self, msg, severity=None, **kw):
        self.notes.append((str(msg), severity))

    def push_screen(self, screen, callback=None):
        self.pending.append((screen, callback))

    def pop_screen(self):
        pass

    def exit(self, msg=None):
        self.exited = msg if msg is not None else ""

    def __getattr__(self, name):
        f = getattr(App, name, None)
        if f is None or not callable(f):
            raise AttributeError(name)
        return types.MethodType(f, self)


KEYS = ["down", "up", "home", "end", "enter", "space", "left", "escape", "y", "n", "q", "s", "o", "d", "slash", "question", "f", "c", "a", "r"]


class Session:
    """One interactive session on the sandbox disk."""

    def __init__(self, kconf, conf_path, env):
        self.kconf = kconf
        self.env = dict(env)
        self.env["KCONFIG_CONFIG"] = conf_path
        self._envctx = simproc.env(**self.env)
        self._envctx.__enter__()
        try:
            with simproc.quiet():
                esp_menuconfig.menuconfig(kconf, headless=True)
            self.state = esp_menuconfig._module_state
            self.started = self.state is not None and self.state.kconf is kconf
            self.app = FakeApp(self.state) if self.started else None
            if self.started:
                with simproc.quiet():
                    self.app.title = kconf.mainmenu_text
                    self.app._refresh_menu()
        except BaseException:
            self.close()
            raise

    def close(self):
        if self._envctx is not None:
            self._envctx.__exit__(None, None, None)
            self._envctx = None
            esp_menuconfig._module_state = None
            simproc.scrub_env()

    # --- the simulated user -------------------------------------------------
    def _highlight(self, idx):
        lst = self.app.list
        n = len(lst._menu_nodes)
        if n == 0:
            lst.highlighted = None
            return
        idx = max(0, min(n - 1, idx))
        if idx != lst.highlighted:
            lst.highlighted = idx
            ev = types.SimpleNamespace(option_index=idx)
            self.app._on_option_highlighted(ev)

    def press(self, key):
        """Key -> message/action dispatch of MenuOptionList / MenuConfigApp (1:1 table)."""
        a, lst = self.app, self.app.list
        h = lst.highlighted if lst.highlighted is not None else 0
        if key == "down":
            self._highlight(h + 1)
        elif key == "up":
            self._highlight(h - 1)
        elif key == "home":
            self._highlight(0)
        elif key == "end":
            self._highlight(len(lst._menu_nodes) - 1)
        elif key == "enter":
            if lst.highlighted is not None and lst.highlighted < len(lst._menu_nodes):
                node = lst._menu_nodes[lst.highlighted]
                if node is None:
                    a._on_leave_requested(List.LeaveRequested())
                else:
                    a._on_node_selected(List.NodeSelected(node))
        elif key == "space":
            node = lst.current_node
            if node:
                a._on_node_toggled(List.NodeToggled(node))
        elif key == "left":
            a._on_leave_requested(List.LeaveRequested())
        elif key == "escape":
            a._on_escape_pressed(List.EscapePressed())
        elif key == "y":
            a._on_bool_value_set(List.BoolValueSet(2))
        elif key == "n":
            a._on_bool_value_set(List.BoolValueSet(0))
        elif key == "q":
            a.action_quit_dialog()
        elif key == "s":
            a.action_save()
        elif key in ("s!", "s!full"):
            # [S] while the disk refuses: "s!" a read-only tree (the rename to .old and the open for writing both fail with
            # EACCES, the old file stays), "s!full" a full disk (the file is truncated, the first write fails with ENOSPC)
            import errno

            from . import simfs

            conf = self.env["KCONFIG_CONFIG"]
            fs = simfs.SimFS(os.path.dirname(conf), chunk=64)
            if key == "s!":
                fs.fail[os.path.abspath(conf)] = ("w", errno.EACCES)
                fs.fail[os.path.abspath(conf) + ".old"] = ("w", errno.EACCES)
            else:
                fs.fail[os.path.abspath(conf)] = ("write", errno.ENOSPC)
            with simfs.Installed(fs, [simproc.core], copyfile=True):
                a.action_save()
            self.fault_counters = getattr(self, "fault_counters", None) or {}
            for k2, v in fs.counters.items():
                if k2.startswith("err@"):
                    self.fault_counters[k2] = self.fault_counters.get(k2, 0) + v
        elif key == "o":
            a.action_load()
        elif key == "d":
            a.action_save_minimal()
        elif key == "slash":
            a.action_jump_to()
        elif key == "question":
            a.action_show_info()
        elif key == "f":
            a.action_toggle_help()
        elif key == "c":
            a.action_toggle_name()
        elif key == "a":
            a.action_toggle_all()
        elif key == "r":
            a.action_restore_default()
        elif key.startswith("goto:"):
            # navigation shortcut = some number of cursor-down presses: highlight the k-th row of a kind
            _, kind, kth = key.split(":")
            st = self.state
            rows = []
            for i, node in enumerate(lst._menu_nodes):
                if node is None:
                    continue
                if kind == "hidden" and not st._visible(node):
                    rows.append(i)
                elif kind == "menu" and node.is_menuconfig:
                    rows.append(i)
                elif kind == "last":
                    rows = [i]
            if rows:
                self._highlight(rows[int(kth) % len(rows)])
        else:
            raise ValueError(key)

    def answer(self, tokens, resolve_file, log):
        """Answer pending dialogs with the given tokens (a cancel when they run out)."""
        a = self.app
        guard = 0
        while a.pending and guard < 12:
            guard += 1
            screen, cb = a.pending.pop(0)
            tok = tokens.pop(0) if tokens else {"cancel": True}
            cancel = tok.get("cancel", False)
            if isinstance(screen, mscr.KeyDialogScreen):
                keys = screen.allowed_keys
                key = None if cancel else keys[tok.get("k", 0) % len(keys)]
                log.append(("dialog", screen.dialog_title if hasattr(screen, "dialog_title") else "key", key))
                if cb:
                    cb(key)
            elif isinstance(screen, mscr.InputScreen):
                node = cb.__defaults__[0] if (cb is not None and cb.__defaults__) else None
                sym = node.item if node is not None else None
                val = None
                tries = 0
                while not cancel and tries < 3:
                    tries += 1
                    t = simproc.core.TYPE_TO_STR.get(sym.orig_type, "string") if sym is not None else "string"
                    text = tok.get("texts", {}).get(t, tok.get("text", ""))
                    ok, err = screen.validator(text) if screen.validator else (True, None)
                    log.append(("input", t, text, ok))
                    if ok:
                        val = text
                        break
                    # InvalidValueScreen, then retype with the next token
                    tok = tokens.pop(0) if tokens else {"cancel": True}
                    cancel = tok.get("cancel", False)
                self.last_input = (node, val)
                if cb:
                    cb(val)
            elif isinstance(screen, mscr.LoadScreen):
                fn = None if cancel else resolve_file(tok.get("file"))
                log.append(("load", tok.get("file") if not cancel else None))
                if cb:
                    cb(fn)
            elif isinstance(screen, mscr.SaveMinimalConfigScreen):
                fn = "" if cancel else (resolve_file(tok.get("file"), True) or "")
                log.append(("save-min", tok.get("file") if not cancel else None))
                if cb:
                    cb(None if not fn.strip() else mscr.SaveMinimalResult(fn.strip(), bool(tok.get("labels"))))
            elif isinstance(screen, mscr.JumpToScreen):
                matches, err = self.state.search_nodes(tok.get("query", ""))
                node = None if (cancel or not matches) else matches[tok.get("k", 0) % len(matches)]
                log.append(("jump", tok.get("query", ""), len(matches), err))
                if cb:
                    cb(node)
            elif isinstance(screen, mscr.InfoScreen):
                # what the screen renders when it is mounted
                mfmt.info_title(screen.node)
                mfmt.info_str(screen.node, self.state.kconf)
                log.append(("info",))
                if not cancel and tok.get("k", 0) % 3 == 0 and not getattr(screen, "from_jump_to", False):
                    # `/` pressed inside the information screen: the real InfoScreen._handle_jump (jump in the model, pop the
                    # screen - the main list is *not* repopulated, the widget keeps showing the menu it showed before)
                    matches, err = self.state.search_nodes(tok.get("query", ""))
                    node = matches[(tok.get("k", 0) // 3) % len(matches)] if matches else None
                    log.append(("jump-from-info", tok.get("query", ""), len(matches), err))
                    fake = types.SimpleNamespace(_state=screen._state, app=a)
                    mscr.InfoScreen._handle_jump(fake, node)
            else:
                log.append(("screen", type(screen).__name__))
                if cb:
                    cb(None)
