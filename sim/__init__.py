"""Deterministic simulation with fault injection for esp-idf-kconfig (see DESIGN.md)."""
