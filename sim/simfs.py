"""SimFS - the simulated disk (DESIGN.md 2.3).

A private *real* directory is the backing store (so rename-over, symlink and
O_TRUNC semantics are the kernel's).  Around every mutating call SimFS keeps

  * a journal with a logical clock (one tick per mutating operation),
  * a user-space buffering model for files opened for writing (pending bytes
    reach the disk as `write(n)` operations of the run's chunk size),
  * one optional crash fault: mutating operation number k of the armed node
    raises SimCrash *before* taking effect (or, for a write with `torn`, after
    a proper prefix of its bytes); afterwards the node is dead - every further
    mutating call raises SimCrash and close() drops pending bytes,
  * optional injected OSErrors per path (config-server checks only),
  * a seeded directory enumeration order for os.walk.

The seams are module-global rebinds (`mod.open`, `mod.os`), installed by
`install()` and removed by `uninstall()`; /repo is never edited and builtins/os
are never patched globally.
"""
import builtins
import collections
import errno as _errno
import os as _os
import random as _random
import shutil as _shutil


class SimCrash(BaseException):
    """Process death.  BaseException so that `except Exception` cannot swallow it."""


class SimFS:
    def __init__(self, root, chunk=8192, dir_salt=0):
        self.root = _os.path.realpath(root)
        self.chunk = chunk
        self.dir_salt = dir_salt
        self.journal = []  # (tick, kind, relpath, info)
        self.tick = 0
        self.counters = collections.Counter()
        self.fail = {}  # abspath -> (when, errno)   when in {"r","w","write"}
        self.node = 0
        self.arm()

    # ---- fault arming -------------------------------------------------
    def arm(self, crash_at=None, torn=None):
        """Start a new node: op counter reset, optional crash fault."""
        self.node += 1
        self.opcount = 0
        self.crash_at = crash_at
        self.torn = torn
        self.dead = False
        self.crash_kind = None
        self.node_start_tick = self.tick

    def rel(self, path):
        p = _os.path.abspath(path)
        if p.startswith(self.root + _os.sep):
            return p[len(self.root) + 1 :]
        return p

    def _mut(self, kind, path, info=None):
        """Account one mutating operation; returns "torn" for a torn write."""
        if self.dead:
            raise SimCrash()
        idx = self.opcount
        self.opcount += 1
        if self.crash_at is not None and self.crash_at == idx:
            self.dead = True
            self.crash_kind = kind
            self.counters["crash@" + kind + ("/torn" if (kind == "write" and self.torn is not None) else "")] += 1
            if kind == "write" and self.torn is not None:
                return "torn"
            raise SimCrash()
        self.tick += 1
        self.journal.append((self.tick, kind, self.rel(path), info))
        return None

    def ops_since(self, tick):
        return [j for j in self.journal if j[0] > tick]

    def mutations(self, since_tick=0, path=None):
        rp = self.rel(path) if path is not None else None
        return [j for j in self.journal if j[0] > since_tick and (rp is None or j[2] == rp)]

    # ---- open ---------------------------------------------------------
    def open(self, path, mode="r", *a, **kw):
        p = _os.fspath(path)
        ap = _os.path.abspath(p)
        if self.dead:
            raise SimCrash()
        f = self.fail.get(ap)
        if "b" not in mode and not kw.get("encoding") and len(a) < 2:
            from . import simproc

            kw["encoding"] = simproc.current_locale()  # no explicit encoding: the locale's (a per-run knob)
        if "r" in mode and "+" not in mode:
            if f and f[0] == "r":
                self.counters["err@open_r/" + _errno.errorcode.get(f[1], str(f[1]))] += 1
                raise OSError(f[1], _os.strerror(f[1]), p)
            return builtins.open(p, mode, *a, **kw)
        if f and f[0] == "w":
            self.counters["err@open_w/" + _errno.errorcode.get(f[1], str(f[1]))] += 1
            raise OSError(f[1], _os.strerror(f[1]), p)
        return _WFile(self, p, mode, kw.get("encoding") or "utf-8", kw.get("newline"))

    # ---- helpers used by harness (never by the SUT) -------------------
    def read(self, path):
        try:
            with builtins.open(path, "rb") as f:
                return f.read()
        except OSError:
            return None

    def put(self, path, data):
        """Harness-side write that is *not* journalled (initial files)."""
        _os.makedirs(_os.path.dirname(_os.path.abspath(path)), exist_ok=True)
        if isinstance(data, str):
            data = data.encode("utf-8")
        with builtins.open(path, "wb") as f:
            f.write(data)


class _WFile:
    """Text file opened for writing through SimFS with explicit buffering."""

    def __init__(self, fs, path, mode, encoding, newline):
        self.fs = fs
        self.name = path
        self.mode = mode
        self.encoding = encoding
        self.pend = b""
        self.closed = False
        existed = _os.path.lexists(path)
        if "a" in mode:
            fs._mut("open_a" if existed else "create", path)
            self.f = builtins.open(path, "ab", buffering=0)
        else:
            fs._mut("truncate" if existed else "create", path)
            self.f = builtins.open(path, "wb", buffering=0)

    def write(self, s):
        if self.fs.dead:
            raise SimCrash()
        self.pend += s.encode(self.encoding)
        if len(self.pend) >= self.fs.chunk:
            self._drain(final=False)
        return len(s)

    def writelines(self, lines):
        for ln in lines:
            self.write(ln)

    def _drain(self, final):
        ch = self.fs.chunk
        while self.pend and (final or len(self.pend) >= ch):
            chunk, rest = self.pend[:ch], self.pend[ch:]
            f = self.fs.fail.get(_os.path.abspath(self.name))
            if f and f[0] == "write":
                self.fs.counters["err@write/" + _errno.errorcode.get(f[1], str(f[1]))] += 1
                self.pend = b""
                raise OSError(f[1], _os.strerror(f[1]), self.name)
            r = self.fs._mut("write", self.name, len(chunk))
            if r == "torn":
                n = int(len(chunk) * self.fs.torn)
                n = min(n, len(chunk) - 1)
                if n > 0:
                    self.f.write(chunk[:n])
                self.fs.tick += 1
                self.fs.journal.append((self.fs.tick, "write-torn", self.fs.rel(self.name), n))
                raise SimCrash()
            self.f.write(chunk)
            self.pend = rest

    def flush(self):
        if self.fs.dead:
            raise SimCrash()
        self._drain(final=True)

    def close(self):
        if self.closed:
            return
        self.closed = True
        try:
            if not self.fs.dead:
                self._drain(final=True)
        finally:
            self.f.close()

    def seek(self, *a):
        return 0

    def fileno(self):
        return self.f.fileno()

    def __enter__(self):
        return self

    def __exit__(self, et, ev, tb):
        self.close()
        return False


class OsProxy:
    """Stands in for the `os` module inside a module under test."""

    def __init__(self, fs, real=_os):
        self._fs = fs
        self._real = real
        self.path = real.path
        self.environ = real.environ
        self.sep = real.sep
        self.name = real.name

    def __getattr__(self, n):
        return getattr(self._real, n)

    def mkdir(self, p, *a, **k):
        self._fs._mut("mkdir", p)
        return self._real.mkdir(p, *a, **k)

    def makedirs(self, p, *a, **k):
        self._fs._mut("makedirs", p)
        return self._real.makedirs(p, *a, **k)

    def replace(self, src, dst, **k):
        for q in (src, dst):
            f = self._fs.fail.get(self._real.path.abspath(q))
            if f and f[0] == "w":
                self._fs.counters["err@replace/" + _errno.errorcode.get(f[1], str(f[1]))] += 1
                raise OSError(f[1], self._real.strerror(f[1]), q)
        self._fs._mut("replace", dst, self._fs.rel(src))
        return self._real.replace(src, dst, **k)

    def rename(self, src, dst, **k):
        self._fs._mut("rename", dst, self._fs.rel(src))
        return self._real.rename(src, dst, **k)

    def remove(self, p, **k):
        if self._fs.dead:
            raise SimCrash()
        if not self._real.path.lexists(p):
            return self._real.remove(p, **k)  # raises, no mutation
        self._fs._mut("remove", p)
        return self._real.remove(p, **k)

    unlink = remove

    def open(self, p, flags, *a, **k):
        if flags & (self._real.O_WRONLY | self._real.O_RDWR | self._real.O_CREAT | self._real.O_TRUNC):
            self._fs._mut("touch", p)
        return self._real.open(p, flags, *a, **k)

    def walk(self, top, *a, **k):
        for root, dirs, files in self._real.walk(top, *a, **k):
            dirs.sort()
            files.sort()
            r2 = _random.Random(f"{self._fs.dir_salt}/{self._fs.rel(root)}")
            r2.shuffle(dirs)
            r2.shuffle(files)
            self._fs.counters["walk_dirs"] += 1
            yield root, dirs, files


class TempfileProxy:
    """Stands in for `tempfile` in kconfgen.core: temp files live in the sandbox."""

    def __init__(self, fs, tmpdir):
        self._fs = fs
        self._dir = tmpdir
        self._n = 0

    def NamedTemporaryFile(self, prefix="tmp", mode="w+", delete=False, encoding=None, **kw):
        from . import simproc

        self._n += 1
        _os.makedirs(self._dir, exist_ok=True)
        # like mkstemp, the name differs from one process to the next (here: seeded by the simulated process's salt)
        name = _os.path.join(self._dir, f"{prefix}{simproc._SET_SALT[0] & 0xFFFFFF:06x}{self._n:02d}")
        return self._fs.open(name, "w", encoding=encoding)


def chunked_copyfile(fs):
    def copyfile(src, dst, *, follow_symlinks=True):
        # same contract as shutil.copyfile, data path through SimFS
        if not follow_symlinks and _os.path.islink(src):
            fs._mut("symlink", dst, _os.readlink(src))
            _os.symlink(_os.readlink(src), dst)
            return dst
        if _os.path.exists(dst) and _os.path.samefile(src, dst):
            raise _shutil.SameFileError("{!r} and {!r} are the same file".format(src, dst))
        with builtins.open(src, "rb") as s:
            data = s.read()
        f = fs.open(dst, "w", encoding="latin-1")
        try:
            f.write(data.decode("latin-1"))
        finally:
            f.close()
        return dst

    return copyfile


class Installed:
    """Context manager installing the seams into the given modules."""

    def __init__(self, fs, modules, tempdir=None, copyfile=True):
        self.fs = fs
        self.modules = modules
        self.tempdir = tempdir
        self.copyfile = copyfile
        self._saved = []

    def __enter__(self):
        fs = self.fs
        proxy = OsProxy(fs)
        for m in self.modules:
            for name, val in (("open", fs.open), ("os", proxy)):
                had = name in m.__dict__
                self._saved.append((m, name, had, m.__dict__.get(name)))
                if name == "os" and not had:
                    continue
                setattr(m, name, val)
            if self.tempdir is not None and "tempfile" in m.__dict__:
                self._saved.append((m, "tempfile", True, m.__dict__["tempfile"]))
                m.tempfile = TempfileProxy(fs, self.tempdir)
        if self.copyfile:
            self._copy = _shutil.copyfile
            _shutil.copyfile = chunked_copyfile(fs)
        return fs

    def __exit__(self, *a):
        for m, name, had, val in reversed(self._saved):
            if had:
                setattr(m, name, val)
            elif name in m.__dict__:
                delattr(m, name)
        self._saved.clear()
        if self.copyfile:
            _shutil.copyfile = self._copy
        return False
