"""kgen - generator of well-formed Kconfig programs, versions, rename tables and
sdkconfig-style files (DESIGN.md 2.7).

Programs are *structured* (nested dicts) so that the shrinker can delete entries;
`render(prog)` gives the canonical 4-space text both parsers accept.
Acyclic by construction: every expression an entry carries only mentions options
defined earlier (lower rank); select / imply / set target options defined later.
"""
import copy
import re

BOOL, INT, HEX, STRING, FLOAT = "bool", "int", "hex", "string", "float"
TYPES = [BOOL, BOOL, BOOL, INT, INT, HEX, STRING, FLOAT]

SUFFIX = ["AX", "NET", "QZ", "MODE", "LVL", "IO"]

# value classes for assignments (DESIGN.md 2.7); first entries are the "sane" ones
VALS = {
    BOOL: ["y", "n"],
    INT: ["0", "1", "7", "12", "49", "50", "51", "123", "-1", "-3", "007", "+5", "12a", "99999999999999999999", "", "--5", "\u00b2"],
    HEX: ["0x0", "0x1", "0x1F", "0x3f", "0x40", "0x41", "1f", "0X2", "0x", "zz", "-0x1", "0x10"],
    FLOAT: ["0.5", "1.5", "5", "1e1", "1e3", "15.5", "25.5", "-0.0", "nan", "inf", "1,5", "3.25"],
    # incl. characters str.splitlines() treats as line boundaries although a text file does not (\x0b \x0c \x1c-\x1e \x85 \u2028 \u2029)
    STRING: ["a", "hello", 'q"t', "b\\c", "", "ab", " sp ", "# default:", "$(X)", "éß", "x=y", "CONFIG_A=y", "n", "y", "0", "0x1",
             "p\x0cq", "r\x85s", "t\x1du", "v\u2029w", "tab\there"],
}
SANE = {
    BOOL: ["y", "n"],
    INT: ["0", "1", "7", "12", "49", "50", "123"],
    HEX: ["0x0", "0x1", "0x1F", "0x3f", "0x40", "0x10"],
    FLOAT: ["0.5", "1.5", "5.0", "15.5", "3.25"],
    STRING: ["a", "hello", 'q"t', "b\\c", "", "ab", "n", "y", "\u00e9\u00df", "l\u2028m"],  # "n"/"y" collide with the bool encoding; non-ASCII: bytes != characters; U+2028: a line boundary for str.splitlines() only
}


def lit(t, r):
    if t == INT:
        return str(r.choice([0, 1, 5, 10, 12, 42, 100, -3]))
    if t == HEX:
        # incl. spellings without the 0x prefix (digits only: parser v2 does not take `1F` as a value), legal for hex options
        return r.choice(["0x0", "0x1", "0x1F", "0xff", "0x10", "0x3", "10", "20"])
    if t == FLOAT:
        return r.choice(["0.5", "1.5", "10.0", "3.25", "5", "1e1", "0.50"])  # incl. non-canonical spellings
    if t == STRING:
        return '"%s"' % r.choice(["a", "b c", "x\\\\y", 'q\\"t', "", "hello", "n", "y", "\u00fc"])
    return r.choice(["y", "n"])


def cond(r, lower, depth=0):
    """A boolean expression over already defined options `lower` = [(name,type)]."""
    bools = [n for n, t in lower if t == BOOL]
    ints = [n for n, t in lower if t == INT]
    hexs = [n for n, t in lower if t == HEX]
    strs = [n for n, t in lower if t == STRING]
    flts = [n for n, t in lower if t == FLOAT]
    opts = []
    if bools:
        opts += ["b", "b", "nb", "and", "or", "beq"]
    if ints:
        opts += ["rel"]
    if len(ints) > 1:
        opts += ["relsym"]
    if hexs:
        opts += ["hrel"]
    if strs:
        opts += ["seq"]
    if flts:
        opts += ["frel"]
    if not opts:
        return None
    k = r.choice(opts)
    if k == "b":
        return r.choice(bools)
    if k == "nb":
        return "!" + r.choice(bools)
    if k == "beq":
        return "%s %s %s" % (r.choice(bools), r.choice(["=", "!="]), r.choice(["y", "n"]))
    if k in ("and", "or") and depth < 2:
        a = cond(r, lower, depth + 1)
        b = cond(r, lower, depth + 1)
        op = "&&" if k == "and" else "||"
        if r.random() < 0.3:
            return "(%s) %s %s" % (a, op, b) if " " in a else "%s %s %s" % (a, op, b)
        return "%s %s %s" % (a, op, b)
    if k in ("and", "or"):
        return r.choice(bools)
    if k == "rel":
        return "%s %s %s" % (r.choice(ints), r.choice(["=", "!=", "<", ">", "<=", ">="]), r.choice(["0", "5", "10", "12"]))
    if k == "relsym":
        a, b = r.sample(ints, 2)
        return "%s %s %s" % (a, r.choice(["<", ">=", "="]), b)
    if k == "hrel":
        return "%s %s %s" % (r.choice(hexs), r.choice(["=", "!=", "<", ">="]), r.choice(["0x1", "0x10", "0x1F"]))
    if k == "frel":
        return "%s %s %s" % (r.choice(flts), r.choice(["<", ">", ">="]), r.choice(["1.0", "2.5", "10.0"]))
    if k == "seq":
        return '%s %s "%s"' % (r.choice(strs), r.choice(["=", "!="]), r.choice(["a", "hello"]))


RANGES = {INT: [("0", "50"), ("1", "12"), ("-5", "100")], HEX: [("0x0", "0x40"), ("0x1", "0x1F")], FLOAT: [("0.0", "20.0"), ("0.5", "3.25")]}


class Gen:
    def __init__(self, r, n, feats, types=None):
        self.types = types or TYPES
        self.r = r
        self.n = n
        self.feats = feats
        self.defined = []  # (name, type) in rank order
        self.info = {}  # name -> dict(type, prompt, choice, rank)
        self.cnt = 0
        self.mcount = 0

    def newname(self):
        i = self.cnt
        self.cnt += 1
        return "S%d_%s" % (i, self.r.choice(SUFFIX))

    def config(self, inchoice=False, forced_type=None, extra_dep=None, menuconfig=False):
        r = self.r
        name = self.newname()
        t = BOOL if (inchoice or menuconfig) else (forced_type or r.choice(self.types))
        lower = list(self.defined)
        e = {"k": "config", "name": name, "type": t, "prompt": None, "prompt_cond": None, "depends": [], "defaults": [],
             "ranges": [], "selects": [], "implies": [], "sets": [], "help": False, "menuconfig": menuconfig, "warning": None}
        if inchoice or menuconfig or r.random() < 0.85:
            e["prompt"] = "%s prompt" % name.lower()
            if r.random() < (0.3 if inchoice else 0.25):
                e["prompt_cond"] = cond(r, lower)
        if extra_dep:
            e["depends"].append(extra_dep)
        if not inchoice:
            if lower and r.random() < 0.3:
                c = cond(r, lower)
                if c:
                    e["depends"].append(c)
            if t in RANGES and r.random() < 0.5:
                for _ in range(r.choice([1, 1, 2])):
                    lo, hi = r.choice(RANGES[t])
                    ints = [n for n, tt in lower if tt == t and t == INT]
                    if ints and r.random() < 0.15:
                        hi = r.choice(ints)
                    c = cond(r, lower) if r.random() < 0.5 else None
                    e["ranges"].append([lo, hi, c])
            for _ in range(r.choice([0, 0, 1, 1, 2])):
                c = cond(r, lower)
                if c:
                    # option-valued defaults only for strings: a numeric option whose first matching default is an
                    # option that currently has no value evaluates to "" (written as `CONFIG_X=`), which is outside
                    # the well-formed space the quantifiers describe (every numeric option has a usable fallback)
                    same = [n for n, tt in lower if tt == t and t == STRING]
                    v = r.choice(same) if (same and r.random() < 0.15) else lit(t, r)
                    e["defaults"].append([v, c])
            if t != BOOL or r.random() < 0.5:
                e["defaults"].append([lit(t, r), None])
            if t == BOOL and e["prompt"] and r.random() < 0.06:
                e["warning"] = "risky %s" % name.lower()
        if r.random() < 0.15:
            e["help"] = True
        self.defined.append((name, t))
        self.info[name] = {"type": t, "prompt": e["prompt"] is not None, "choice": inchoice, "rank": len(self.defined) - 1}
        return e

    def choice(self, budget):
        r = self.r
        k = min(budget, r.choice([2, 3, 3, 4]))
        lower = list(self.defined)
        self.mcount += 1
        ch = {"k": "choice", "name": ("CH%d" % self.mcount) if r.random() < 0.5 else None, "prompt": "choice %d" % self.mcount,
              "prompt_cond": None, "depends": [], "defaults": [], "items": []}
        if r.random() < 0.35:
            c = cond(r, lower)
            if c:
                ch["depends"].append(c)
        if r.random() < 0.15:
            ch["prompt_cond"] = cond(r, lower)
        members = []
        inner_if = None
        for j in range(k):
            save = list(self.defined)
            self.defined = list(lower)  # member conditions only mention options before the choice
            m = self.config(inchoice=True)
            self.defined = save + [(m["name"], BOOL)]
            self.info[m["name"]]["rank"] = len(self.defined) - 1
            members.append(m["name"])
            if "if_in_choice" in self.feats and j > 0 and r.random() < 0.2:
                c = cond(r, lower)
                if c:
                    ch["items"].append({"k": "if", "cond": c, "items": [m]})
                    continue
            ch["items"].append(m)
        for _ in range(r.choice([0, 1, 1, 2])):
            c = cond(r, lower) if r.random() < 0.5 else None
            ch["defaults"].append([r.choice(members), c])
        if "untyped_member" in self.feats and k >= 2 and r.random() < 0.3:
            first = next((m for m in walk(ch["items"]) if m["k"] == "config"), None)
            if first is not None and first["prompt"] is not None:
                first["untyped"] = True
        return ch, k

    def block(self, budget, depth):
        """Generate items using up to `budget` options."""
        r = self.r
        items = []
        while budget > 0:
            k = r.random()
            if k < 0.16 and budget >= 2 and "choice" in self.feats:
                ch, used = self.choice(budget)
                items.append(ch)
                budget -= used
            elif k < 0.30 and budget >= 2 and depth < 2 and "menu" in self.feats:
                self.mcount += 1
                lower = list(self.defined)
                m = {"k": "menu", "title": "M%d" % self.mcount, "depends": [], "visible_if": None, "items": []}
                c = cond(r, lower)
                if c and r.random() < 0.4:
                    m["visible_if"] = c
                elif c and r.random() < 0.5:
                    m["depends"].append(c)
                used = r.randint(1, min(budget, 4))
                m["items"] = self.block(used, depth + 1)
                budget -= used
                items.append(m)
            elif k < 0.38 and budget >= 1 and depth < 2 and "if" in self.feats:
                c = cond(r, list(self.defined))
                if not c:
                    continue
                used = r.randint(1, min(budget, 3))
                items.append({"k": "if", "cond": c, "items": self.block(used, depth + 1)})
                budget -= used
            elif k < 0.46 and budget >= 2 and "menuconfig" in self.feats:
                mc = self.config(menuconfig=True)
                items.append(mc)
                budget -= 1
                for _ in range(r.randint(1, min(budget, 2))):
                    items.append(self.config(extra_dep=mc["name"]))
                    budget -= 1
            elif k < 0.52 and "comment" in self.feats:
                self.mcount += 1
                c = cond(r, list(self.defined)) if r.random() < 0.5 else None
                items.append({"k": "comment", "text": "note %d" % self.mcount, "depends": [c] if c else []})
            else:
                items.append(self.config())
                budget -= 1
        return items


ALL_FEATS = ["choice", "menu", "if", "menuconfig", "comment", "if_in_choice", "select", "imply", "set", "setdefault", "redef", "warning"]


def walk(items):
    for it in items:
        yield it
        if "items" in it:
            yield from walk(it["items"])


def gen_program(r, n=None, feats=None, lo=3, hi=14, types=None, p_rev=1.0, p_nodefault=0.0, p_shuffle=0.3, p_bare=0.03, p_choice_redef=0.08,
                p_select_member=0.0):
    """Returns a structured program dict."""
    if n is None:
        n = r.randint(lo, hi)
    if feats is None:
        # swarm style: each feature is on with probability 3/4
        feats = [f for f in ALL_FEATS if r.random() < 0.75]
    g = Gen(r, n, feats, types)
    items = g.block(n, 0)
    prog = {"mainmenu": "T", "items": items, "feats": feats}
    configs = [it for it in walk(items) if it["k"] == "config"]
    if p_nodefault:
        # only for properties whose quantifier has no "fallback default" clause: numeric options without any default
        for c in configs:
            if c["type"] in RANGES and r.random() < p_nodefault:
                c["defaults"] = []
    rank = {c["name"]: i for i, c in enumerate(configs)}
    # rank of the first member of the enclosing choice block end (targets must lie after the block)
    block_end = {}
    for it in walk(items):
        if it["k"] == "choice":
            ms = [c["name"] for c in walk(it["items"]) if c["k"] == "config"]
            if ms:
                end = max(rank[m] for m in ms)
                for m in ms:
                    block_end[m] = end
    member = set(block_end)
    # "bare" helper options: no prompt, no default, no range, only `depends on` - their value comes from imply /
    # set default alone (those paths read the direct dependencies directly)
    bare = set()
    for c in configs:
        if c["name"] not in member and c["type"] in (BOOL, STRING) and not c.get("menuconfig") and r.random() < p_bare:
            lower = [(d["name"], d["type"]) for d in configs if rank[d["name"]] < rank[c["name"]] and d["name"] not in member]
            cnd = cond(r, lower)
            if cnd:
                c["prompt"], c["prompt_cond"], c["defaults"], c["ranges"], c["warning"] = None, None, [], [], None
                if not c["depends"]:
                    c["depends"] = [cnd]
                bare.add(c["name"])
    for c in configs:
        if c["type"] != BOOL:
            continue
        src_rank = block_end.get(c["name"], rank[c["name"]])
        later = [d for d in configs if rank[d["name"]] > src_rank and d["name"] not in member]
        lower = [(d["name"], d["type"]) for d in configs if rank[d["name"]] < rank[c["name"]] and (d["name"] not in member or c["name"] not in member or block_end[d["name"]] != block_end[c["name"]])]
        lb = [d for d in later if d["type"] == BOOL]
        ln = [d for d in later if d["type"] != BOOL]
        if "select" in feats and lb and r.random() < 0.2:
            c["selects"].append([r.choice(lb)["name"], cond(r, lower) if r.random() < 0.4 else None])
        if p_select_member and "select" in feats and r.random() < p_select_member:
            # a choice symbol as the target of a select: legal, and without effect on the selection
            lm = [d for d in configs if rank[d["name"]] > src_rank and d["name"] in member and block_end.get(d["name"]) != block_end.get(c["name"])]
            if lm:
                c["selects"].append([r.choice(lm)["name"], None])
        lbb = [d for d in lb if d["name"] in bare]
        if "imply" in feats and lb and r.random() < (0.6 if lbb else 0.15):
            c["implies"].append([r.choice(lbb or lb)["name"], cond(r, lower) if r.random() < 0.4 else None])
        for kind, p in (("set", 0.18), ("setdefault", 0.15)):
            if kind in feats and ln and r.random() < p * p_rev:
                tgt = r.choice(ln)
                lnb = [d for d in ln if d["name"] in bare]
                if lnb and kind == "setdefault":
                    tgt = r.choice(lnb)
                strs = [d for d in ln if d["type"] == STRING]
                if strs and any(t == STRING for _, t in lower) and r.random() < 0.5:
                    tgt = r.choice(strs)  # make option-valued `set` (string only) reasonably frequent
                # option-valued `set` is only evaluated by value for string targets (numeric
                # targets take the *name* as a literal; pure-evaluator territory, C01/C09)
                lows = [n for n, t in lower if t == tgt["type"] and t == STRING]
                val = r.choice(lows) if (lows and r.random() < 0.5) else lit(tgt["type"], r)
                c["sets"].append([kind, tgt["name"], val, cond(r, lower) if r.random() < 0.4 else None])
    # second definition site of an option (adds a default / prompt-less redefinition)
    if "redef" in feats and configs and r.random() < 0.25:
        c = r.choice([x for x in configs if x["name"] not in member] or configs)
        if c["name"] not in member:
            lower = [(d["name"], d["type"]) for d in configs if rank[d["name"]] < rank[c["name"]]]
            e = {"k": "config", "name": c["name"], "type": c["type"], "prompt": None, "prompt_cond": None, "depends": [],
                 "defaults": [[lit(c["type"], r), cond(r, lower)]], "ranges": [], "selects": [], "implies": [], "sets": [], "help": False,
                 "menuconfig": False, "warning": None, "redef": True}
            if e["defaults"][0][1] is None:
                e["defaults"] = []
            prog["items"].append(e)
    if "redef" in feats and "choice" in feats and r.random() < p_choice_redef:
        add_choice_redef(r, prog)
    # The hidden rank order (what may depend on what) is fixed now; the *definition* order need not follow it:
    # Kconfig allows forward references (`config GATED depends on GATE` above `config GATE`), and sdkconfig files,
    # unique_defined_syms and every "resolve in file order" loop then meet dependents before their dependencies.
    prog["rank"] = {c["name"]: i for i, c in enumerate(configs)}
    if len(prog["items"]) > 1 and r.random() < p_shuffle:
        its = prog["items"]
        if r.random() < 0.5:
            r.shuffle(its)
        else:
            i = r.randrange(len(its))
            its.insert(r.randrange(len(its)), its.pop(i))
    return prog


def add_choice_redef(r, prog):
    """A named choice defined in a second place (legal, rarely used): the second definition re-declares one or two of the
    choice's own members with another prompt, at the top level or inside a menu of its own.  No new option is introduced,
    so ranks and the option table are unchanged."""
    choices = [it for it in walk(prog["items"]) if it["k"] == "choice" and not it.get("redef")]
    choices = [c for c in choices if [m for m in walk(c["items"]) if m["k"] == "config"]]
    if not choices:
        return False
    ch = r.choice(choices)
    if not ch["name"]:
        ch["name"] = "CHX%d" % (1 + sum(1 for c in choices if c["name"]))
    members = [m for m in walk(ch["items"]) if m["k"] == "config"]
    again = r.sample(members, min(len(members), r.choice([1, 1, 2])))
    items = []
    for m in again:
        items.append({"k": "config", "name": m["name"], "type": BOOL, "prompt": "%s again" % m["name"].lower(), "prompt_cond": None, "depends": [],
                      "defaults": [], "ranges": [], "selects": [], "implies": [], "sets": [], "help": False, "menuconfig": False, "warning": None,
                      "redef": True})
    second = {"k": "choice", "name": ch["name"], "prompt": "%s (second site)" % ch["prompt"], "prompt_cond": None, "depends": [], "defaults": [],
              "items": items, "redef": True}
    if r.random() < 0.6:
        prog["items"].append({"k": "menu", "title": "MX%d" % len(prog["items"]), "depends": [], "visible_if": None, "items": [second]})
    else:
        prog["items"].append(second)
    return True


def sym_table(prog):
    """name -> {type, prompt, choice (bool), rank} from the structured program."""
    tab = {}
    rank = 0

    def rec(items, inchoice):
        nonlocal rank
        for it in items:
            if it["k"] == "config":
                if it["name"] not in tab:
                    tab[it["name"]] = {"type": it["type"], "prompt": it["prompt"] is not None, "choice": inchoice, "rank": rank}
                    rank += 1
                elif it["prompt"] is not None:
                    tab[it["name"]]["prompt"] = True
            elif it["k"] == "choice":
                rec(it["items"], True)
            elif "items" in it:
                rec(it["items"], inchoice)

    rec(prog["items"], False)
    hidden = prog.get("rank")
    if hidden:
        base = len(hidden)
        for i, (n, e) in enumerate(sorted(tab.items(), key=lambda kv: kv[1]["rank"])):
            e["rank"] = hidden.get(n, base + i)
    return tab


def _if(c):
    return (" if " + c) if c else ""


def render(prog):
    out = ['mainmenu "%s"' % prog.get("mainmenu", "T"), ""]

    def rec(items, ind):
        pad = " " * ind
        for it in items:
            k = it["k"]
            if k == "config":
                out.append(pad + ("menuconfig " if it.get("menuconfig") else "config ") + it["name"])
                p = pad + "    "
                if it["prompt"] is not None and it.get("untyped"):
                    # no type of its own: a member takes the type of its choice, which takes it from its first typed member
                    out.append(p + 'prompt "%s"%s' % (it["prompt"], _if(it["prompt_cond"])))
                elif it["prompt"] is not None:
                    out.append(p + '%s "%s"%s' % (it["type"], it["prompt"], _if(it["prompt_cond"])))
                else:
                    out.append(p + it["type"])
                for d in it["depends"]:
                    out.append(p + "depends on " + d)
                for lo, hi, c in it["ranges"]:
                    out.append(p + "range %s %s%s" % (lo, hi, _if(c)))
                for v, c in it["defaults"]:
                    out.append(p + "default %s%s" % (v, _if(c)))
                for t, c in it["selects"]:
                    out.append(p + "select %s%s" % (t, _if(c)))
                for t, c in it["implies"]:
                    out.append(p + "imply %s%s" % (t, _if(c)))
                for kind, t, v, c in it["sets"]:
                    out.append(p + "%s %s=%s%s" % ("set" if kind == "set" else "set default", t, v, _if(c)))
                if it.get("warning"):
                    out.append(p + 'warning "%s"' % it["warning"])
                if it.get("help"):
                    out.append(p + "help")
                    out.append(p + "    Help text for %s." % it["name"])
                out.append("")
            elif k == "choice":
                out.append(pad + "choice" + (" " + it["name"] if it["name"] else ""))
                p = pad + "    "
                out.append(p + 'prompt "%s"%s' % (it["prompt"], _if(it["prompt_cond"])))
                for d in it["depends"]:
                    out.append(p + "depends on " + d)
                for m, c in it["defaults"]:
                    out.append(p + "default %s%s" % (m, _if(c)))
                out.append("")
                rec(it["items"], ind + 4)
                out.append(pad + "endchoice")
                out.append("")
            elif k == "menu":
                out.append(pad + 'menu "%s"' % it["title"])
                p = pad + "    "
                for d in it["depends"]:
                    out.append(p + "depends on " + d)
                if it["visible_if"]:
                    out.append(p + "visible if " + it["visible_if"])
                out.append("")
                rec(it["items"], ind + 4)
                out.append(pad + "endmenu")
                out.append("")
            elif k == "if":
                out.append(pad + "if " + it["cond"])
                out.append("")
                rec(it["items"], ind + 4)
                out.append(pad + "endif")
                out.append("")
            elif k == "comment":
                out.append(pad + 'comment "%s"' % it["text"])
                for d in it["depends"]:
                    out.append(pad + "    depends on " + d)
                out.append("")

    rec(prog["items"], 0)
    return "\n".join(out) + "\n"


_IDENT = re.compile(r"[A-Z][A-Z0-9_]*")


def evolve(r, prog, pair_bias=0.0, remove_mentioned=0.0, retype=0.0):
    """A new *version* of a program: changed default / condition / range / prompt
    condition, added or removed option (DESIGN.md 2.7)."""
    p = copy.deepcopy(prog)
    configs = [it for it in walk(p["items"]) if it["k"] == "config" and not it.get("redef")]
    tab = sym_table(p)
    names = [c["name"] for c in configs]
    nchg = r.choice([1, 1, 2, 3])
    log = []
    for _ in range(nchg):
        k = r.choice(["default", "default", "default", "defcond", "range", "promptcond", "add", "remove", "remove", "choicedefault", "defaultpair",
                      "defaultpair"])
        if r.random() < pair_bias:
            k = "defaultpair"
        if k == "defaultpair":
            # both ends of a dependency change their default in the same upgrade (the dependent's stored default is
            # only meaningful under the stored default of what it depends on)
            edges = [(a, b) for a, b, _ in dep_edges(p) if a in tab and b in tab and not tab[a]["choice"] and not tab[b]["choice"]]
            byname = {c["name"]: c for c in configs}
            if edges:
                a, b = r.choice(edges)
                for nm in (a, b):
                    c = byname.get(nm)
                    if c is None:
                        continue
                    cur = c["defaults"][-1][0] if c["defaults"] else None
                    v = lit(c["type"], r)
                    if c["type"] == BOOL:
                        v = "n" if cur == "y" else "y"
                    if r.random() < 0.6:
                        # the new default comes first, so it is the effective one whatever conditional defaults follow
                        if c["type"] == BOOL and c["defaults"]:
                            first = c["defaults"][0]
                            v = "n" if (first[0] == "y" and first[1] is None) else v
                        c["defaults"].insert(0, [v, None])
                    elif c["defaults"] and c["defaults"][-1][1] is None:
                        c["defaults"][-1][0] = v
                    else:
                        c["defaults"].append([v, None])
                log.append(("defaultpair", a, b))
            continue
        if k == "choicedefault":
            chs = [it for it in walk(p["items"]) if it["k"] == "choice"]
            if not chs:
                continue
            ch = r.choice(chs)
            ms = [c["name"] for c in walk(ch["items"]) if c["k"] == "config"]
            if ms:
                ch["defaults"] = [[r.choice(ms), None]]
                log.append(("choicedefault", ch["name"]))
            continue
        if not configs:
            continue
        c = r.choice(configs)
        inch = tab[c["name"]]["choice"]
        lower = [(n, tab[n]["type"]) for n in names if tab[n]["rank"] < tab[c["name"]]["rank"] and not (inch and tab[n]["choice"])]
        if k == "default" and not inch:
            v = lit(c["type"], r)
            if c["defaults"]:
                c["defaults"][-1][0] = v
            else:
                c["defaults"].append([v, None])
            log.append(("default", c["name"], v))
        elif k == "defcond" and not inch:
            cc = cond(r, lower)
            if cc:
                c["defaults"].insert(0, [lit(c["type"], r), cc])
                log.append(("defcond", c["name"]))
        elif k == "range" and c["type"] in RANGES:
            lo, hi = r.choice(RANGES[c["type"]])
            c["ranges"] = [[lo, hi, None]]
            log.append(("range", c["name"], lo, hi))
        elif k == "promptcond" and c["prompt"] is not None:
            c["prompt_cond"] = cond(r, lower)
            log.append(("promptcond", c["name"]))
        elif k == "add":
            t = r.choice(TYPES)
            name = "N%d_%s" % (len(names) + len(log), r.choice(SUFFIX))
            e = {"k": "config", "name": name, "type": t, "prompt": "%s prompt" % name.lower(), "prompt_cond": None, "depends": [],
                 "defaults": [[lit(t, r), None]], "ranges": [], "selects": [], "implies": [], "sets": [], "help": False, "menuconfig": False,
                 "warning": None}
            p["items"].append(e)
            log.append(("add", name))
        elif k == "remove" and not inch:
            # only options nobody mentions - unless asked otherwise: an expression may go on naming an option that is no
            # longer defined (it then evaluates as n), which is how options usually disappear from a real tree
            txt = render(p)
            mentioned = len(re.findall(r"\b%s\b" % c["name"], txt)) != 1
            if (not mentioned or (r.random() < remove_mentioned and not any(
                    c["name"] == t for x in configs for t, _c in x["selects"] + x["implies"]) and not any(
                    c["name"] == t for x in configs for _k, t, _v, _c in x["sets"]))) and not c.get("menuconfig"):
                _remove(p["items"], c)
                configs.remove(c)
                names.remove(c["name"])
                log.append(("remove", c["name"]))
    if retype and r.random() < retype:
        # an option keeps its name and the text of its value but changes its type (int 5 -> string "5", bool y -> string "y")
        txt = render(p)
        cands = [c for c in configs if c["type"] in (INT, HEX, BOOL) and not c.get("menuconfig") and not c["selects"] and not c["implies"]
                 and not c["sets"] and not sym_table(p)[c["name"]]["choice"] and len(re.findall(r"\b%s\b" % c["name"], txt)) == 1]
        if cands:
            c = r.choice(cands)
            c["type"], c["ranges"], c["warning"] = STRING, [], None
            c["defaults"] = [['"%s"' % v.strip('"'), cnd] for v, cnd in c["defaults"] if _IDENT.fullmatch(v) is None] or [['"y"', None]]
            log.append(("retype", c["name"]))
    p["evolved"] = log
    return p


def _remove(items, target):
    for i, it in enumerate(items):
        if it is target:
            del items[i]
            return True
        if "items" in it and _remove(it["items"], target):
            return True
    return False


def rename_table(r, prog, maxn=5):
    """Lines of an sdkconfig.rename file: several aliases per option, `!`
    inversions (bool only), duplicates (last mapping wins)."""
    tab = sym_table(prog)
    names = [n for n in tab if not tab[n]["choice"]]
    lines = ["# generated rename table"]
    olds = []
    if not names:
        return "\n".join(lines) + "\n", []
    news = []
    for i in range(r.randint(1, maxn)):
        # several aliases of one option are the interesting case (their relative order in every generated output)
        new = r.choice(news) if (news and r.random() < 0.4) else r.choice(names)
        news.append(new)
        if olds and r.random() < 0.15:
            old = r.choice(olds)  # duplicate mapping
            if old == new:
                continue
        else:
            old = "OLD%d_%s" % (i, r.choice(SUFFIX))
            if r.random() < 0.12:
                old = old.lower()  # rename files accept lower-case old names
        inv = tab[new]["type"] == BOOL and r.random() < 0.3
        lines.append("CONFIG_%s %sCONFIG_%s" % (old, "!" if inv else "", new))
        olds.append(old)
    return "\n".join(lines) + "\n", sorted(set(olds))


def esc(s):
    return s.replace("\\", "\\\\").replace('"', '\\"')


def assign_line(name, t, v, prefix="CONFIG_"):
    if t == STRING:
        return '%s%s="%s"\n' % (prefix, name, esc(v))
    if t == BOOL and v == "n":
        return "# %s%s is not set\n" % (prefix, name)
    return "%s%s=%s\n" % (prefix, name, v)


def handwritten(r, prog, olds=(), sane=True, maxn=8, avoid=()):
    """sdkconfig.defaults-style text: no default markers; duplicates, several
    members of one choice at y, unknown and deprecated names."""
    tab = sym_table(prog)
    names = [n for n in tab if n not in avoid]
    lines = []
    if r.random() < 0.3:
        lines.append("# hand-written\n")
    for _ in range(r.randint(0, maxn)):
        k = r.random()
        if k < 0.08:
            lines.append("CONFIG_UNKNOWN%d_OPT=%s\n" % (r.randint(0, 3), r.choice(["y", "5", '"s"'])))
        elif k < 0.16 and olds:
            lines.append("CONFIG_%s=%s\n" % (r.choice(list(olds)), r.choice(["y", "n", "7"])))
        elif names:
            n = r.choice(names)
            t = tab[n]["type"]
            v = r.choice((SANE if sane else VALS)[t])
            if t == BOOL and v == "n" and r.random() < 0.5:
                lines.append("CONFIG_%s=n\n" % n)
            else:
                lines.append(assign_line(n, t, v))
        if r.random() < 0.1:
            lines.append("\n")
    text = "".join(lines)
    k = r.random()
    if k < 0.08:
        text = text.replace("\n", "\r\n")  # edited on another platform
    elif k < 0.16:
        text = text.replace("\n", "  \n")  # trailing blanks
    return text


def strip_default_marked(text):
    """Delete every `# default:` line together with the assignment after it."""
    out, skip = [], False
    for ln in text.splitlines(True):
        if skip:
            skip = False
            continue
        if ln.strip() == "# default:":
            skip = True
            continue
        out.append(ln)
    return "".join(out)


def prog_shape(prog):
    """Shape digest input: kinds and types without names."""
    def rec(items):
        return [(it["k"], it.get("type"), bool(it.get("prompt_cond")), len(it.get("defaults", [])), len(it.get("ranges", [])),
                 len(it.get("selects", [])), len(it.get("sets", [])), rec(it["items"]) if "items" in it else None) for it in items]
    return rec(prog["items"])


def v2_ok(prog):
    """Constructs the two parsers are known to treat differently (`imply X if C`,
    C04's subject) make a program v1-only."""
    for it in walk(prog["items"]):
        if it["k"] == "config" and any(c for _, c in it["implies"]):
            return False
        if it["k"] == "config" and it.get("untyped"):
            return False  # parser v2 refuses a config without a type
    return True


def pick_parser(r, prog, p2=0.1):
    return 2 if (r.random() < p2 and v2_ok(prog)) else 1


def dep_edges(prog):
    """Static approximation of 'B may depend on A': list of (A, B, enabler) with
    multiplicity (value positions - option-valued set/default/range - are rarer
    in programs and therefore oversampled).  `enabler` is a bool option whose y
    makes the link active (the source of a select/imply/set), or None."""
    tab = sym_table(prog)
    edges = []

    def names_in(x):
        return [m for m in _IDENT.findall(x or "") if m in tab]

    def add(a, b, en=None, mult=1):
        if a != b and a in tab and b in tab:
            edges.extend([(a, b, en)] * mult)

    # who selects / implies / sets each option: its own dependencies only matter for such a value while the source is on
    rev_sources = {}
    for it in walk(prog["items"]):
        if it["k"] == "config":
            for t, _c in it["selects"] + it["implies"]:
                rev_sources.setdefault(t, []).append(it["name"])
            for _kind, t, _v, _c in it["sets"]:
                rev_sources.setdefault(t, []).append(it["name"])

    def rec(items, inherited):
        for it in items:
            k = it["k"]
            if k == "config":
                b = it["name"]
                srcs = list(inherited)
                for d in it["depends"]:
                    srcs += names_in(d)
                srcs += names_in(it["prompt_cond"])
                for v, c in it["defaults"]:
                    srcs += names_in(c)
                    for a in names_in(v):
                        add(a, b, None, 3)
                for lo, hi, c in it["ranges"]:
                    srcs += names_in(c)
                    for a in names_in(lo) + names_in(hi):
                        add(a, b, None, 3)
                for a in srcs:
                    add(a, b)
                    for src in rev_sources.get(b, ()):
                        add(a, b, src, 2)
                for t, c in it["selects"] + it["implies"]:
                    add(b, t)
                    for a in names_in(c) + srcs:
                        add(a, t, b)
                for kind, t, v, c in it["sets"]:
                    add(b, t)
                    for a in names_in(c) + srcs:
                        add(a, t, b)
                    for a in names_in(v):
                        add(a, t, b, 6)
            elif k == "choice":
                inh = list(inherited) + [a for d in it["depends"] for a in names_in(d)] + names_in(it["prompt_cond"])
                for m, c in it["defaults"]:
                    inh += names_in(c)
                ms = [c["name"] for c in walk(it["items"]) if c["k"] == "config"]
                for a in ms:
                    for b in ms:
                        add(a, b)
                rec(it["items"], inh)
            elif k == "menu":
                inh = list(inherited) + [a for d in it["depends"] for a in names_in(d)] + names_in(it["visible_if"])
                rec(it["items"], inh)
            elif k == "if":
                rec(it["items"], list(inherited) + names_in(it["cond"]))

    rec(prog["items"], [])
    return edges


def gen_menu_program(r, n=None):
    """Swarm focus for the UI checks: few top-level rows and deep menu structure - a gate option, a menu that is
    hidden/disabled through it (`visible if` / `depends on`), nested menus, menuconfig options and choices inside."""
    g = Gen(r, n or 8, ALL_FEATS)
    items = []
    for _ in range(r.randint(1, 2)):
        e = g.config(forced_type=BOOL)
        e["depends"], e["prompt_cond"] = [], None
        e["defaults"] = [[r.choice(["y", "n", "n"]), None]]
        items.append(e)
    gate = items[0]["name"]

    def submenu(depth):
        g.mcount += 1
        m = {"k": "menu", "title": "M%d" % g.mcount, "depends": [], "visible_if": None, "items": []}
        k = r.random()
        cond = r.choice([gate, "!" + gate, gate + " = y"])
        if k < 0.45:
            m["visible_if"] = cond
        elif k < 0.65:
            m["depends"].append(cond)
        for _ in range(r.randint(1, 3)):
            kk = r.random()
            if kk < 0.45 and depth < 2:
                m["items"].append(submenu(depth + 1))
            elif kk < 0.6:
                mc = g.config(menuconfig=True)
                m["items"].append(mc)
                m["items"].append(g.config(extra_dep=mc["name"]))
            elif kk < 0.7:
                ch, _ = g.choice(3)
                m["items"].append(ch)
            else:
                m["items"].append(g.config())
        return m

    for _ in range(r.randint(1, 2)):
        items.append(submenu(0))
    if r.random() < 0.4:
        items.append(g.config())
    prog = {"mainmenu": "T", "items": items, "feats": ALL_FEATS}
    if r.random() < 0.35:
        add_choice_redef(r, prog)
    return prog
