"""simproc - simulated process lifecycle (DESIGN.md 2.1, 2.2, 2.4).

A "node" is one tool run: a fresh Kconfig object graph with its own report
singleton, its own environment and its own set-iteration order salt.  Only the
disk (SimFS) survives between nodes.
"""
import contextlib
import io
import os
import sys

REPO = os.environ.get("VERIF_REPO", "/repo")
if REPO not in sys.path:
    sys.path.insert(0, REPO)

os.environ.setdefault("KCONFIG_REPORT_VERBOSITY", "quiet")

SCRUB_PREFIXES = ("KCONFIG_", "IDF_", "MENUCONFIG_", "SDKCONFIG_", "ESP_IDF_KCONFIG_")
SCRUB_NAMES = ("CONFIG_", "srctree", "COMPONENT_SDKCONFIG_RENAMES", "COMPONENT_KCONFIGS", "COMPONENT_KCONFIGS_PROJBUILD")


def scrub_env():
    for k in list(os.environ):
        if k.startswith(SCRUB_PREFIXES) or k in SCRUB_NAMES:
            if k == "ESP_IDF_KCONFIG_VERIF":
                continue
            del os.environ[k]
    os.environ["KCONFIG_REPORT_VERBOSITY"] = "quiet"


scrub_env()

import esp_kconfiglib.core as core  # noqa: E402
from esp_kconfiglib.report import KconfigReport  # noqa: E402

_real_stderr = sys.stderr

try:  # the harness's own evaluations are silent; a simulated node sets the verbosity its environment asks for
    from esp_pylib.logger import log as _pylog

    _pylog.set_verbosity("silent")
except Exception:  # noqa: B902
    pass


@contextlib.contextmanager
def env(**kv):
    """Set environment variables for the duration of a node's construction."""
    old = {}
    for k, v in kv.items():
        old[k] = os.environ.get(k)
        if v is None:
            os.environ.pop(k, None)
        else:
            os.environ[k] = str(v)
    try:
        yield
    finally:
        for k, v in old.items():
            if v is None:
                os.environ.pop(k, None)
            else:
                os.environ[k] = v


@contextlib.contextmanager
def quiet(stdout=False):
    """Per-node stderr (and optionally stdout) buffer (the rich logger follows the live streams)."""
    buf = io.StringIO()
    old = sys.stderr, sys.stdout
    sys.stderr = buf
    if stdout:
        sys.stdout = buf
    try:
        yield buf
    finally:
        sys.stderr, sys.stdout = old


def fresh_report():
    KconfigReport._instance = None


# ---- SimHash: seeded set-iteration order (DESIGN.md 2.4) ----------------
class _HashState:
    salt = 0
    table = {}
    seq = 0


_orig_hash = {}


def _mk_hash():
    st = _HashState

    def __hash__(self):
        i = id(self)
        n = st.table.get(i)
        if n is None:
            st.seq += 1
            n = st.seq
            st.table[i] = n
            st.keep.append(self)
        # multiplicative mix with the run's salt, stays within Py_hash_t
        return ((n * 0x9E3779B97F4A7C15) ^ (st.salt * 0xC2B2AE3D27D4EB4F)) & 0x3FFFFFFFFFFFFFFF

    return __hash__


def install_simhash(salt):
    """Rebind __hash__ of Symbol/Choice/MenuNode to a per-run numbering mixed
    with `salt`.  Equality stays identity.  Must be called at run start, after
    the previous run's object graphs were dropped."""
    st = _HashState
    st.salt = salt
    st.table = {}
    st.seq = 0
    st.keep = []  # keep numbered objects alive so ids are not reused within a run
    BOOT_CHOICE_DEFAULTS.clear()
    h = _mk_hash()
    for cls in (core.Symbol, core.Choice, core.MenuNode):
        if cls not in _orig_hash:
            _orig_hash[cls] = cls.__dict__.get("__hash__")
        cls.__hash__ = h


# ---- locale: the encoding an open() without an explicit one would get (DESIGN.md 9.6) ----
_LOCALE = {"enc": "utf-8"}
LOCALES = ["utf-8", "utf-8", "utf-8", "utf-8", "utf-8", "latin-1", "latin-1", "cp1252"]
_LOCALE_MODULES = ["esp_kconfiglib.core", "esp_kconfiglib.deprecated", "esp_kconfiglib.report", "kconfgen.core", "kconfserver.core",
                   "kconfcheck.core", "kconfcheck.check_deprecated_options", "esp_menuconfig.model", "esp_menuconfig.app",
                   "esp_menuconfig.idf_headers"]


def current_locale():
    return _LOCALE["enc"]


def _locale_open(path, mode="r", buffering=-1, encoding=None, errors=None, newline=None, closefd=True, opener=None):
    import builtins

    if "b" not in mode and encoding is None:
        encoding = _LOCALE["enc"]
    return builtins.open(path, mode, buffering, encoding, errors, newline, closefd, opener)


def install_locale(scenario):
    """The locale's preferred encoding is part of the environment a tool run meets; here it is a per-run knob (derived from
    the scenario's salt unless given) that every text-mode open() *without an explicit encoding* in the modules under test
    receives.  The shipped code always passes an encoding, so the knob is inert on it."""
    import importlib

    enc = scenario.get("locale") or LOCALES[(scenario.get("hash_salt", 0) >> 8) % len(LOCALES)]
    _LOCALE["enc"] = enc
    for name in _LOCALE_MODULES:
        if name.startswith("esp_menuconfig") and "esp_menuconfig" not in sys.modules:
            continue
        try:
            m = importlib.import_module(name)
        except Exception:  # noqa: B902
            continue
        m.__dict__["open"] = _locale_open
    return enc


# ---- SaltedSet: iteration order of sets built with set()/frozenset() in the modules under test -------------
# The iteration order of a set of *strings* depends on the interpreter's hash seed, i.e. it differs between two tool runs
# (PYTHONHASHSEED is random by default).  Inside one simulated batch every node shares this interpreter's seed, so the
# simulator owns that order instead: the names `set` / `frozenset` in the modules under test are bound to subclasses whose
# iteration order is a seeded permutation (per node: `reseed_sets()` is called whenever a new process is simulated).
import zlib as _zlib

_SET_SALT = [0]


_WD = ["", ""]


def set_workdir(wd):
    """The run's scratch directory has a random name: strings that embed it (file locations, menu ids) are ordered by
    their text with the directory replaced, so that a run replays in another directory exactly as it ran."""
    _WD[0] = wd
    _WD[1] = wd.strip("/").replace("/", "-")


def _okey(x):
    if isinstance(x, str):
        if _WD[0] and (_WD[0] in x or _WD[1] in x):
            x = x.replace(_WD[0], "<WD>").replace(_WD[1], "<WD>")
        return _zlib.crc32(x.encode("utf-8", "surrogatepass"))
    if isinstance(x, tuple):
        h = 17
        for y in x:
            h = (h * 1000003) ^ _okey(y)
        return h & 0x3FFFFFFFFFFFFFFF
    try:
        return hash(x)
    except TypeError:
        return 0


def _mix64(z):
    z &= 0xFFFFFFFFFFFFFFFF
    z = ((z ^ (z >> 30)) * 0xBF58476D1CE4E5B9) & 0xFFFFFFFFFFFFFFFF
    z = ((z ^ (z >> 27)) * 0x94D049BB133111EB) & 0xFFFFFFFFFFFFFFFF
    return z ^ (z >> 31)


def _salted_iter(base, self):
    items = list(base.__iter__(self))
    if len(items) > 1:
        salt = getattr(self, "_salt", 0)  # the hash seed of the process that built the set
        items.sort(key=lambda x: _mix64(_okey(x) ^ (salt * 0x9E3779B97F4A7C15)))
    return iter(items)


class SaltedSet(set):
    __slots__ = ("_salt",)

    def __init__(self, *a):
        set.__init__(self, *a)
        self._salt = _SET_SALT[0]

    def __iter__(self):
        return _salted_iter(set, self)


class SaltedFrozenSet(frozenset):
    __slots__ = ("_salt",)

    def __new__(cls, *a):
        self = frozenset.__new__(cls, *a)
        self._salt = _SET_SALT[0]
        return self

    def __iter__(self):
        return _salted_iter(frozenset, self)


def reseed_sets(salt):
    """A new simulated process: another hash seed, i.e. another iteration order for every string set."""
    _SET_SALT[0] = salt & 0xFFFFFFFF


def next_process():
    """A new simulated process starts: it has its own hash seed."""
    _NODE_COUNT[0] += 1
    reseed_sets((_SET_SALT[0] * 1103515245 + 12345 + _NODE_COUNT[0]) & 0xFFFFFFFF)


def install_salted_sets(scenario):
    import importlib

    reseed_sets(scenario.get("hash_salt", 0) ^ 0x5EED)
    _NODE_COUNT[0] = 0
    for name in _LOCALE_MODULES:
        if name.startswith("esp_menuconfig") and "esp_menuconfig" not in sys.modules:
            continue
        try:
            m = importlib.import_module(name)
        except Exception:  # noqa: B902
            continue
        m.__dict__["set"] = SaltedSet
        m.__dict__["frozenset"] = SaltedFrozenSet


def new_kconfig(path, parser=1, policy=None, extra_env=None, renames=None):
    """Boot a node: fresh report singleton, explicit environment, its own string-set iteration order."""
    fresh_report()
    next_process()
    e = {"KCONFIG_PARSER_VERSION": parser, "KCONFIG_DEFAULTS_POLICY": policy, "KCONFIG_REPORT_VERBOSITY": "quiet"}
    if extra_env:
        e.update(extra_env)
    with env(**e), quiet():
        k = core.Kconfig(path, parser_version=parser, print_report=False)
        if renames:
            k.load_rename_files(list(renames))
    BOOT_CHOICE_DEFAULTS[id(k)] = (k, [list(c.defaults) for c in k.unique_choices])
    return k


BOOT_CHOICE_DEFAULTS = {}
_NODE_COUNT = [0]


def injected_choices(k):
    """Indices of choices whose `defaults` were rewritten after boot (an injected
    sdkconfig default selection; Choice has no flag for it)."""
    ent = BOOT_CHOICE_DEFAULTS.get(id(k))
    if not ent or ent[0] is not k:
        return []
    return [i for i, (c, d0) in enumerate(zip(k.unique_choices, ent[1])) if list(c.defaults) != d0]
