"""Self-test of the simulator (DESIGN.md 2.10) - not a registered command.

  ./vcheck Cxx --selftest

1. Determinism: 64 run indices executed in four fresh interpreters
   (PYTHONHASHSEED 0 / 12345 x 1 / 16 workers); per-run event-log digests must be
   identical.
2. Reach: a quick batch is run and every reach probe / fault counter the check
   declares in PROBES_EXPECTED must be non-zero (a silently dead workload is
   noticed here, never in the registered commands).
"""
import json
import os
import subprocess
import sys

from . import runner

N = 64


def _digests(cid, tier, hashseed, workers):
    p = subprocess.run([sys.executable, os.path.join(runner.VERIF, "vcheck"), cid, "--tier", tier, "--digests", "0:%d" % N], capture_output=True, text=True,
                       env=dict(os.environ, PYTHONHASHSEED=str(hashseed), VERIF_WORKERS=str(workers), VERIF_NO_REEXEC="1"), timeout=1800)
    try:
        return json.loads(p.stdout.strip().splitlines()[-1])
    except Exception:
        print("selftest: digest subprocess failed:", p.stdout[-800:], p.stderr[-1500:])
        return None


def main(cid, tier):
    check = runner.load_check(cid)
    ok = True
    base = None
    for hs, w in ((0, 16), (12345, 1), (0, 1), (12345, 16)):
        d = _digests(cid, tier, hs, w)
        if d is None:
            return 2
        if base is None:
            base = d
        bad = sorted(int(k) for k in base if d.get(k) != base[k])
        print(f"[{cid}] determinism PYTHONHASHSEED={hs} workers={w}: {len(d)} runs, mismatches vs first configuration: {bad[:10]}")
        ok = ok and not bad and len(d) == len(base)
    seed = int(os.environ.get("VERIF_SEED", runner.DEFAULT_SEED[tier]))
    agg = runner.explore(cid, seed, tier, min(check.TIERS[tier]["runs"], 3000), 120)
    zero = [p for p in getattr(check, "PROBES_EXPECTED", []) if not agg["counters"].get(p)]
    print(f"[{cid}] reach: runs={agg['runs']} counters={dict(sorted(agg['counters'].items()))}")
    if zero:
        print(f"[{cid}] reach probes stuck at zero: {zero}")
        ok = False
    if agg["errors"]:
        print(f"[{cid}] harness errors: {agg['errors'][0][1]}")
        ok = False
    print(f"[{cid}] selftest {'OK' if ok else 'FAILED'}")
    return 0 if ok else 2
